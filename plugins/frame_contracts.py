"""pytest plugin (loaded with -p plugins.frame_contracts; nothing is written into /repo):
applies icontract frame contracts to the real pyoak functions while the repository's own
tests run. Every registered node is snapshotted (identity of every field value, id,
content_id, hash) before replace / duplicate / detach / detach_self / as_dict / as_obj /
dfs-based queries and compared afterwards. Conditions record and return True (a raising
contract would abort the test it observes); results go to $VERIF_CONTRACT_OUT."""
from __future__ import annotations

import dataclasses
import json
import os

import icontract

RESULT = {"evaluations": 0, "per_function": {}, "violations": []}


class FrameBroken(Exception):
    pass


def _take():
    from pyoak.node import NODE_REGISTRY

    snap = []
    for n in list(NODE_REGISTRY.values()):
        snap.append((n, tuple((f.name, getattr(n, f.name, None)) for f in dataclasses.fields(n)), n.id, n.content_id, hash(n)))
    return snap


def _same(snap, where):
    from pyoak.node import ASTNode

    RESULT["evaluations"] += 1
    RESULT["per_function"][where] = RESULT["per_function"].get(where, 0) + 1
    for n, vals, id_, cid, h in snap:
        bad = None
        for name, old in vals:
            new = getattr(n, name, "<deleted>")
            if new is old:
                continue
            if isinstance(old, ASTNode) or isinstance(new, ASTNode) or type(new) is not type(old) or new != old:
                bad = f"{type(n).__name__}.{name} changed"
                break
        if bad is None and (n.id != id_ or n.content_id != cid or hash(n) != h):
            bad = f"{type(n).__name__}: id / content_id / hash changed"
        if bad and len(RESULT["violations"]) < 20:
            RESULT["violations"].append({"what": f"{where}: {bad}", "test": os.environ.get("PYTEST_CURRENT_TEST", "")})
    return True


def _slots_clean(where):
    """C16 (i): after a (de)serialization call the two process-global option slots are empty again"""
    from pyoak.serialize import DataClassSerializeMixin as M

    RESULT["slot_checks"] = RESULT.get("slot_checks", 0) + 1
    so, md = M._DataClassSerializeMixin__serialization_options, M._DataClassSerializeMixin__mashumaro_dialect
    if (so != {} or md is not None) and len(RESULT["violations"]) < 20:
        RESULT["violations"].append({"what": f"{where}: serialization options / dialect still set after the call returned: {so!r} {md!r}", "test": os.environ.get("PYTEST_CURRENT_TEST", ""), "kind": "slots"})
    return True


def _wrap(fn, where, first_arg):
    ser = where in ("as_dict", "as_obj")
    if first_arg == "self":
        def cap(self):
            return _take()

        def cond(self, OLD):
            return _same(OLD.frame, where) and (not ser or _slots_clean(where))
    else:
        def cap(cls):
            return _take()

        def cond(cls, OLD):
            return _same(OLD.frame, where) and (not ser or _slots_clean(where))

    return icontract.snapshot(cap, name="frame")(icontract.ensure(cond, error=FrameBroken)(fn))


def pytest_configure(config):
    from pyoak.node import ASTNode
    from pyoak.serialize import DataClassSerializeMixin

    for name in ("replace", "duplicate", "detach", "detach_self", "is_equal", "to_properties_dict"):
        setattr(ASTNode, name, _wrap(getattr(ASTNode, name), f"ASTNode.{name}", "self"))
    DataClassSerializeMixin.as_dict = _wrap(DataClassSerializeMixin.as_dict, "as_dict", "self")
    DataClassSerializeMixin.as_obj = classmethod(_wrap(DataClassSerializeMixin.as_obj.__func__, "as_obj", "cls"))


def pytest_sessionfinish(session, exitstatus):
    out = os.environ.get("VERIF_CONTRACT_OUT")
    if out:
        with open(out, "w") as f:
            json.dump(RESULT, f)
