"""The legacy (parent-aware) node universe for C18-C20: tuple, list, optional and required child fields."""
from __future__ import annotations

from .universe import CS, FS, Universe

LEGACY_PRELUDE = """\
import enum
from dataclasses import dataclass, field
from typing import Any, Optional, Sequence, Union, Tuple, List
from pyoak.legacy.node import AwareASTNode
from pyoak.origin import Origin
"""


def legacy_specs(P: str = "G", runtime_only: bool = False) -> list[CS]:
    N = f"{P}Node"
    return [
        CS(N, ("AwareASTNode",), [], abstract=True),
        CS(f"{P}Leaf", (N,), [FS("v", "prop", "int", "int", default="0"), FS("s", "prop", "str", "str", default='""')]),
        CS(f"{P}Leaf2", (N,), [FS("v", "prop", "int", "int", default="0"), FS("s", "prop", "str", "str", default='""')]),
        CS(f"{P}Name", (f"{P}Leaf",), [FS("tag", "prop", "str | None", "ostr", default="None")]),
        CS(f"{P}Un", (N,), [FS("child", "child", N, "one", (N,)), FS("op", "prop", "str", "str", default='"-"')]),
        CS(
            f"{P}Bin",
            (N,),
            [FS("left", "child", N, "one", (N,)), FS("right", "child", f"{N} | None", "opt", (N,), default="None"), FS("op", "prop", "str", "str", default='"+"')],
        ),
        CS(f"{P}List", (N,), [FS("items", "child", f"tuple[{N}, ...]", "tuple", (N,), default="()"), FS("label", "prop", "str", "str", default='""')]),
        CS(
            f"{P}Lst",
            (N,),
            [FS("elems", "child", f"list[{N}]", "list", (N,), default="field(default_factory=list)"), FS("opt", "child", f"Optional[{P}Leaf]", "opt", (f"{P}Leaf",), default="None")],
        ),
        CS(
            f"{P}Call",
            (N,),
            [
                FS("args", "child", f"tuple[{N}, ...]", "tuple", (N,), default="()"),
                FS("fn", "child", f"{N} | None", "opt", (N,), default="None"),
                FS("kwargs", "child", f"List[{N}]", "list", (N,), default="field(default_factory=list)"),
            ],
        ),
        # an inner node class that can be iterated over (its statements), used in single and sequence child fields
        CS(f"{P}IterBlock", (N,), [FS("stmts", "child", f"tuple[{N}, ...]", "tuple", (N,), default="()")], body="    def __iter__(self):\n        return iter(self.stmts)\n"),
        # a child field that is optional *and* a sequence
        CS(f"{P}OptSeq", (N,), [FS("items", "child", f"tuple[{N}, ...] | None", "tuple", (N,), default="None"), FS("elems", "child", f"Optional[list[{N}]]", "list", (N,), default="None")]),
        # child fields declared compare=False (still children: attached, counted into content ids, propagated through)
        CS(f"{P}Ann", (N,), [FS("target", "child", f"{N} | None", "opt", (N,), default="None"), FS("aside", "child", f"{N} | None", "opt", (N,), compare=False, default="None"), FS("extras", "child", f"tuple[{N}, ...]", "tuple", (N,), compare=False, default="()")]),
        # a leaf subclass that nevertheless has a child (fits narrowly typed fields such as Lst.opt)
        # a subclass that re-declares a field of its base as init=False (a fixed value: not a replaceable key there, while it
        # is one in the base class)
        CS(f"{P}Lbl", (N,), [FS("label", "prop", "str", "str", default='""'), FS("kid", "child", f"{N} | None", "opt", (N,), default="None"), FS("more", "child", f"tuple[{N}, ...]", "tuple", (N,), default="()")]),
        CS(f"{P}FixedLbl", (f"{P}Lbl",), [FS("label", "prop", "str", "str", init=False, default='"fixed"')]),
        # a field whose annotation admits a node or a scalar and that holds the scalar (a property by its value)
        CS(f"{P}UnionLbl", (N,), [FS("label", "prop", f"{P}Leaf | str", "str", default='""'), FS("kid", "child", f"{N} | None", "opt", (N,), default="None")]),
        # a wrapper that forwards unknown attributes to the node it wraps (the user's __getattr__)
        CS(f"{P}Paren", (N,), [FS("inner", "child", N, "one", (N,))], body="    def __getattr__(self, name):\n        if name.startswith('__') or name == 'inner':\n            raise AttributeError(name)\n        return getattr(self.inner, name)\n"),
        # a sequence child field declared before single child fields
        CS(f"{P}SeqFirst", (N,), [FS("items", "child", f"tuple[{N}, ...]", "tuple", (N,), default="()"), FS("alpha", "child", f"{N} | None", "opt", (N,), default="None"), FS("omega", "child", f"{N} | None", "opt", (N,), default="None")]),
        # keyword-only child fields (field(kw_only=True)): children like any other
        CS(f"{P}Kw", (N,), [FS("first", "child", f"{N} | None", "opt", (N,), default="None"), FS("body", "child", f"tuple[{N}, ...]", "tuple", (N,), kw_only=True, default="()"), FS("last", "child", f"{N} | None", "opt", (N,), kw_only=True, default="None"), FS("v", "prop", "int", "int", kw_only=True, default="0")]),
        CS(f"{P}Wrap", (f"{P}Leaf",), [FS("inner", "child", f"{N} | None", "opt", (N,), default="None")]),
        # a class that is not defined at module top level
        CS(f"{P}Inner", (N,), [FS("v", "prop", "int", "int", default="0"), FS("kid", "child", f"{N} | None", "opt", (N,), default="None")], local=True),
        # a node class that is falsy while it has no statements (a header child may still be present)
        CS(
            f"{P}Block",
            (N,),
            [FS("header", "child", f"{N} | None", "opt", (N,), default="None"), FS("stmts", "child", f"tuple[{N}, ...]", "tuple", (N,), default="()")],
            body="    def __len__(self):\n        return len(self.stmts)\n",
        ),
    ] + (
        # a field that is a child field only by what it holds at run time (the annotation is not a child annotation)
        [CS(f"{P}Seq", (N,), [FS("elems", "child", f"Sequence[{N}]", "tuple", (N,), default="()"), FS("n", "prop", "int", "int", default="0")]),
         # ... declared before a statically typed child field: children come in declaration order all the same
         CS(f"{P}RtFirst", (N,), [FS("target", "child", "Any", "opt", (N,), default="None"), FS("value", "child", f"{N} | None", "opt", (N,), default="None"), FS("rest", "child", f"tuple[{N}, ...]", "tuple", (N,), default="()")])]
        if runtime_only
        else []
    )


_CACHE: dict = {}


def legacy_universe(P: str = "G", runtime_only: bool = False) -> Universe:
    key = (P, runtime_only)
    if key not in _CACHE:
        specs = legacy_specs(P, runtime_only)
        # FS.render puts default=... inside field(); for default_factory the source is given verbatim
        u = Universe(f"verif_legacy_{P}{int(runtime_only)}", [], prelude=LEGACY_PRELUDE, root_base="AwareASTNode", frozen=False)
        src = u.source
        for s in specs:
            lines = []
            for f in s.fields:
                if f.default is not None and f.default.startswith("field("):
                    lines.append(f"    {f.name}: {f.ann} = {f.default}")
                else:
                    lines.append(f.render())
            body = "\n".join(lines) if lines else "    pass"
            csrc = f"@dataclass\nclass {s.name}({', '.join(s.bases)}):\n{body}\n{s.body}\n"
            if s.local:
                csrc = f"def _make_{s.name}():\n" + "".join("    " + ln + "\n" for ln in csrc.splitlines()) + f"    return {s.name}\n\n{s.name} = _make_{s.name}()\n\n"
            src += csrc
        u.source = src
        u.specs = {s.name: s for s in specs}
        u.order = [s.name for s in specs]
        import warnings

        with warnings.catch_warnings():
            warnings.simplefilter("ignore", DeprecationWarning)
            u.exec()
        u.P = P
        _CACHE[key] = u
    return _CACHE[key]
