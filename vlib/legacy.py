"""Helpers for legacy (AwareASTNode) trees: building from specs, structural walks that use
only the dataclass fields named in the class specs (never the library's own enumeration)."""
from __future__ import annotations

from typing import Any

from . import origins as O
from .spec import S
from .universe import Universe


def build_legacy(U: Universe, s: S, memo: dict[int, Any] | None = None, **extra) -> Any:
    """Bottom-up construction; tuple/list fields take the container type of the class spec."""
    if memo is None:
        memo = {}
    if id(s) in memo:
        return memo[id(s)]
    kw: dict[str, Any] = {}
    for f in U.child_fields(s.cls):
        if f.name not in s.kids:
            continue
        v = s.kids[f.name]
        if v is None:
            kw[f.name] = None
        elif isinstance(v, tuple):
            seq = [build_legacy(U, c, memo) for c in v]
            kw[f.name] = seq if f.shape == "list" else tuple(seq)
        else:
            kw[f.name] = build_legacy(U, v, memo)
    for f in U.prop_fields(s.cls):
        if f.name in s.props and f.init:
            kw[f.name] = s.props[f.name]
    kw["origin"] = O.build_origin(s.origin)
    kw.update(extra if not memo else {})
    node = U.cls[s.cls](**kw)
    memo[id(s)] = node
    return node


def struct_children(U: Universe, n: Any) -> list[tuple[str, int | None, Any]]:
    """(field, index, child) read from the dataclass fields the class spec marks as child fields."""
    out = []
    for f in U.child_fields(type(n).__name__):
        v = getattr(n, f.name)
        if v is None:
            continue
        if isinstance(v, (tuple, list)):
            for i, c in enumerate(v):
                out.append((f.name, i, c))
        else:
            out.append((f.name, None, v))
    return out


def struct_subtree(U: Universe, n: Any) -> list[Any]:
    out = []
    stack = [n]
    seen = set()
    while stack:
        x = stack.pop()
        if id(x) in seen:
            continue
        seen.add(id(x))
        out.append(x)
        stack.extend(c for _, _, c in reversed(struct_children(U, x)))
    return out
