"""Pattern ASTs, renderer, generator and reference matcher (documented semantics), shared by C08 and C17.

Tree  = ('tree', classes, fields)     classes: '*' | tuple[str, ...]; fields: list[(fname, spec, capture|None)]
spec  = None                          any value
      | ('re', text) | ('none',) | ('var', name) | Tree
      | ('seq', [(value, capture|None), ...], tail)      tail: None | ('tail', capture|None)
value = ('re', text) | ('none',) | ('var', name) | Tree
"""
from __future__ import annotations

import re
from typing import Any, Callable


# ---------------------------------------------------------------------------
# rendering
# ---------------------------------------------------------------------------
def render(t, ws: Callable[[], str] = lambda: " ") -> str:
    def cap(c):
        return f"{ws()}->{ws()}{c}" if c else ""

    def val(v):
        k = v[0]
        if k == "re":
            return '"' + v[1] + '"'
        if k == "none":
            return "None"
        if k == "var":
            return "$" + v[1]
        if k == "tree":
            return tree(v)
        raise ValueError(v)

    def tree(t):
        _, classes, fields = t
        out = "(" + ws().strip(" ") + ("*" if classes == "*" else (ws().strip(" ") + "|" + ws().strip(" ")).join(classes))
        for fname, spec, c in fields:
            out += ws() + "@" + fname
            if spec is not None:
                out += ws().strip(" ") + "=" + ws().strip(" ")
                if spec[0] == "seq":
                    out += "["
                    parts = []
                    for v, vc in spec[1]:
                        parts.append(val(v) + cap(vc))
                    if spec[2] is not None:
                        parts.append("*" + cap(spec[2][1]))
                    out += ws().join(parts) + "]"
                else:
                    out += val(spec)
            out += cap(c)
        return out + ws().strip(" ") + ")"

    return tree(t)


def tokens(t) -> list[str]:
    """Token list of the rendered pattern (for whitespace / token mutations)."""
    toks: list[str] = []

    def cap(c):
        if c:
            toks.extend(["->", c])

    def val(v):
        k = v[0]
        if k == "re":
            toks.append('"' + v[1] + '"')
        elif k == "none":
            toks.append("None")
        elif k == "var":
            toks.extend(["$", v[1]])
        else:
            tree(v)

    def tree(t):
        _, classes, fields = t
        toks.append("(")
        if classes == "*":
            toks.append("*")
        else:
            for i, c in enumerate(classes):
                if i:
                    toks.append("|")
                toks.append(c)
        for fname, spec, c in fields:
            toks.extend(["@", fname])
            if spec is not None:
                toks.append("=")
                if spec[0] == "seq":
                    toks.append("[")
                    for v, vc in spec[1]:
                        val(v)
                        cap(vc)
                    if spec[2] is not None:
                        toks.append("*")
                        cap(spec[2][1])
                    toks.append("]")
                else:
                    val(spec)
            cap(c)
        toks.append(")")

    tree(t)
    return toks


def join_tokens(toks: list[str], sep: Callable[[], str]) -> str:
    """Join tokens; a separator is mandatory only where two word-like tokens meet
    ('$' + name and '@' + name may be glued)."""
    out = ""
    prev = None
    for tk in toks:
        s = sep()
        if prev is not None:
            need = (prev[-1].isalnum() or prev[-1] == "_") and (tk[0].isalnum() or tk[0] == "_")
            if need and s == "":
                s = " "
        out += (s if prev is not None else "") + tk
        prev = tk
    return out


def capture_names(t) -> list[str]:
    out = []

    def val(v):
        if v[0] == "tree":
            tree(v)

    def tree(t):
        for fname, spec, c in t[2]:
            if spec is not None:
                if spec[0] == "seq":
                    for v, vc in spec[1]:
                        val(v)
                        if vc:
                            out.append(vc)
                    if spec[2] is not None and spec[2][1]:
                        out.append(spec[2][1])
                else:
                    val(spec)
            if c:
                out.append(c)

    tree(t)
    return out


# ---------------------------------------------------------------------------
# reference matcher
# ---------------------------------------------------------------------------
class TailSlice:
    """Expected capture of a trailing '*': the remaining elements (a fresh slice of the field value)."""

    def __init__(self, elems):
        self.value = elems  # the slice as the sequence type of the field gives it (a tuple for tuples, a list for lists)
        self.elems = tuple(elems)


def ref_match(t, node, classes: dict[str, type], node_base: type):
    """Returns (ok, captures). captures: name -> object | TailSlice."""

    def is_node(x):
        return isinstance(x, node_base)

    def m_value(v, value, ctx):
        k = v[0]
        if k == "re":
            return (re.match(v[1], str(value)) is not None, {})
        if k == "none":
            return (value is None, {})
        if k == "var":
            cv = ctx[v[1]]
            if isinstance(cv, TailSlice):
                cv = cv.value
            if is_node(cv):
                return (cv.is_equal(value), {})
            try:
                return (bool(cv == value), {})
            except Exception:  # noqa: BLE001
                return (False, {})
        if k == "tree":
            return m_tree(v, value, ctx)
        raise ValueError(v)

    def m_spec(spec, value, ctx):
        if spec is None:
            return (True, {})
        if spec[0] == "seq":
            elems, tail = spec[1], spec[2]
            if not elems and tail is None:
                return (isinstance(value, tuple) and len(value) == 0, {})
            if not isinstance(value, (tuple, list)):
                return (False, {})
            if tail is None and len(value) != len(elems):
                return (False, {})
            if tail is not None and len(value) < len(elems):
                return (False, {})
            lctx = dict(ctx)
            caps = {}
            for (v, vc), x in zip(elems, value):
                ok, c = m_value(v, x, lctx)
                if not ok:
                    return (False, {})
                if vc:
                    c = {vc: x, **c}
                lctx.update(c)
                caps.update(c)
            if tail is not None and tail[1]:
                caps[tail[1]] = TailSlice(value[len(elems):])
            return (True, caps)
        return m_value(spec, value, ctx)

    def m_tree(t, value, ctx):
        _, cls, fields = t
        if cls == "*":
            if not is_node(value):
                return (False, {})
        elif not isinstance(value, tuple(classes[c] for c in cls)):
            return (False, {})
        lctx = dict(ctx)
        caps = {}
        for fname, spec, c in fields:
            if not hasattr(value, fname):
                return (False, {})
            fv = getattr(value, fname)
            ok, cc = m_spec(spec, fv, lctx)
            if not ok:
                return (False, {})
            if c:
                cc = {c: fv, **cc}
            lctx.update(cc)
            caps.update(cc)
        return (True, caps)

    ok, caps = m_tree(t, node, {})
    return (ok, caps if ok else {})


def captures_agree(got: dict, exp: dict) -> str | None:
    if set(got) != set(exp):
        return f"capture names differ: got {sorted(got)} expected {sorted(exp)}"
    for k, e in exp.items():
        g = got[k]
        if isinstance(e, TailSlice):
            if type(g) is not type(e.value) or len(g) != len(e.elems) or any(a is not b for a, b in zip(g, e.elems)):
                return f"capture {k!r}: tail slice differs"
        elif g is not e:
            # (a computed attribute such as the `children` convenience property yields a fresh list on every access:
            # such a capture is the same value when its elements are the same objects)
            if isinstance(e, list) and isinstance(g, list) and len(e) == len(g) and all(a is b for a, b in zip(g, e)):
                continue
            return f"capture {k!r} is not the very object matched"
    return None


# ---------------------------------------------------------------------------
# generation: derive a pattern from a node, then perturb
# ---------------------------------------------------------------------------
CAP_NAMES = ["a", "b", "c", "d", "e", "x", "y", "z", "n", "m", "k", "q", "val", "it_em", "_x", "a_b"]
REGEX_SAFE = re.compile(r"^[A-Za-z0-9 _+\-]*$")


class PatGen:
    def __init__(self, rng, U, fields_of: Callable[[Any], list[str]], class_choices: Callable[[Any], list[str]], all_classes: list[str]):
        self.rng = rng
        self.U = U
        self.fields_of = fields_of
        self.class_choices = class_choices
        self.all_classes = all_classes
        self.caps: list[tuple[str, Any]] = []  # completed captures (name, value)
        self.used: set[str] = set()

    def fresh_cap(self, p: float):
        if self.rng.random() > p:
            return None
        free = [c for c in CAP_NAMES if c not in self.used]
        if not free:
            return None
        c = self.rng.choice(free)
        self.used.add(c)
        return c

    def regex_for(self, value):
        s = str(value)
        r = self.rng.random()
        if '"' in s or "\\" in s or "\n" in s or len(s) > 30:
            head = "".join(ch if ch.isalnum() else "." for ch in s[:4])
            out = head + ".*" if r < 0.7 else "zzz"
        elif r < 0.35:
            out = re.escape(s)  # full text (prefix match of itself)
        elif r < 0.55:
            out = re.escape(s[: max(0, len(s) // 2)])  # proper prefix
        elif r < 0.75 and len(s) >= 2:
            out = re.escape(s[1:])  # matches only in the middle -> must fail (match, not search)
        elif r < 0.85:
            out = re.escape(s) + "$"
        elif r < 0.93:
            out = "[0-9]+" if s.isdigit() else ".*"
        else:
            out = "nomatch"
        try:
            re.compile(out)
        except re.error:
            out = ".*"
        if '"' in out:
            out = ".*"
        return out

    def value_for(self, x, depth):
        """pattern value for object x"""
        rng = self.rng
        from pyoak.node import ASTNode

        # variable referring to an earlier, completed capture
        if self.caps and rng.random() < 0.25:
            same = [n for n, v in self.caps if (isinstance(v, ASTNode) and isinstance(x, ASTNode) and v.content_id == x.content_id and type(v) is type(x)) or (not isinstance(v, ASTNode) and not isinstance(x, ASTNode) and type(v) is type(x) and v == x)]
            if same and rng.random() < 0.75:
                return ("var", rng.choice(same))
            return ("var", rng.choice(self.caps)[0])
        if x is None:
            return ("none",) if rng.random() < 0.8 else ("re", "None")
        if isinstance(x, ASTNode):
            if depth > 0 and rng.random() < 0.8:
                return self.tree_for(x, depth - 1)
            return ("tree", "*", []) if rng.random() < 0.5 else ("tree", (rng.choice(self.class_choices(x)),), [])
        return ("re", self.regex_for(x))

    def tree_for(self, node, depth):
        rng = self.rng
        r = rng.random()
        own = self.class_choices(node)
        if r < 0.15:
            classes = "*"
        elif r < 0.55:
            classes = (rng.choice(own),)
        elif r < 0.85:
            # alternatives; the matching one may come second
            other = rng.choice(self.all_classes)
            classes = (other, rng.choice(own)) if rng.random() < 0.6 else (rng.choice(own), other)
        else:
            classes = (rng.choice(self.all_classes),)
        fields = []
        fnames = self.fields_of(node)
        rng.shuffle(fnames)
        chosen = fnames[: rng.choice([0, 1, 1, 2, 2, 3, 4])]
        if chosen and rng.random() < 0.2:
            # the same field may be listed more than once: every listed spec must hold
            chosen.insert(rng.randrange(len(chosen) + 1), rng.choice(chosen))
        for fname in chosen:
            if rng.random() < 0.04:
                fname = rng.choice(["nosuchfield", "content_id", "origin"])
            fv = getattr(node, fname, None)
            spec = None
            r = rng.random()
            if r < 0.2:
                spec = None
            elif isinstance(fv, tuple):
                r2 = rng.random()
                if len(fv) == 0 and r2 < 0.6:
                    spec = ("seq", [], None)
                elif r2 < 0.1:
                    spec = ("seq", [], None)  # [] against a non-empty tuple -> fail
                else:
                    k = rng.choice([len(fv), len(fv), max(0, len(fv) - 1), len(fv) + 1, rng.randint(0, len(fv))])
                    elems = []
                    for i in range(k):
                        x = fv[i] if i < len(fv) else (fv[-1] if fv else None)
                        v = self.value_for(x, depth) if rng.random() < 0.85 else ("tree", "*", [])
                        vc = self.fresh_cap(0.3)
                        elems.append((v, vc))
                        if vc and i < len(fv):
                            self.caps.append((vc, fv[i]))
                    tail = None
                    if rng.random() < 0.5:
                        tc = self.fresh_cap(0.5)
                        tail = ("tail", tc)
                    if not elems and tail is None:
                        spec = ("seq", [], None)
                    else:
                        spec = ("seq", elems, tail)
            else:
                spec = self.value_for(fv, depth)
            c = self.fresh_cap(0.35)
            fields.append((fname, spec, c))
            if c:
                self.caps.append((c, fv))
        return ("tree", classes, fields)
