"""Type-annotation ASTs for C11 / C13: enumeration, rendering to source, reference
classification (child / property / reject) and reference conformance of values.

AST forms (tuples):
  ('int',) ('str',) ('float',) ('bool',) ('any',) ('none',) ('enum',)
  ('lit', (values...))
  ('nt', name)                 NewType defined in the prelude: NTint, NTstr, NTnode(N0), NTnt(NTint)
  ('opt', x, sp)               sp: 'typing' -> Optional[x], 'pipe' -> x | None
  ('union', (x, y, ...), sp)   sp: 'typing' -> Union[...], 'pipe' -> a | b
  ('tvar', x) ('tfix', (x, ...)) ('tempty',) ('tbare',)
  ('fset', x) ('seq', x) ('map', k, v)
  ('list', x) ('dict', k, v) ('set', x)
  ('node', 'N0'|'N1'|'Fz')     node class defined before the class under test
  ('fwd', 'L0')                node class defined *after* it (forward reference)
"""
from __future__ import annotations

import itertools
from typing import Any

NT_SUPER = {
    "NTint": ("int",), "NTstr": ("str",), "NTnode": ("node", "N0"), "NTnt": ("nt", "NTint"),
    # NewTypes whose supertype is a generic over another NewType
    "NTseq": ("tvar", ("nt", "NTnode")), "NTopt": ("opt", ("nt", "NTnode"), "typing"), "NTints": ("tvar", ("nt", "NTint")),
}

PRELUDE = """
class {P}Color(enum.Enum):
    RED = 1
    GREEN = "g"

@dataclass(frozen=True)
class {P}N0(ASTNode):
    v: int = 0

@dataclass(frozen=True)
class {P}N1({P}N0):
    w: str = ""

@dataclass(frozen=True)
class {P}Fz(ASTNode):
    v: int = 0
    def __len__(self):
        return 0

@dataclass(frozen=True)
class {P}Coll(ASTNode):
    # a node class that satisfies collections.abc.Collection (len / iter / in over its items)
    items: tuple[{P}N0, ...] = ()
    def __len__(self):
        return len(self.items)
    def __iter__(self):
        return iter(self.items)
    def __contains__(self, x):
        return any(x is i for i in self.items)

class {P}HDict(dict):
    def __hash__(self):
        return id(self)


class {P}NAbcBase(ASTNode, ABC):
    # an abstract node base (abc.ABC gives it another metaclass)
    pass

@dataclass(frozen=True)
class {P}NAbc({P}NAbcBase):
    v: int = 0

{P}NTint = NewType("{P}NTint", int)
{P}NTstr = NewType("{P}NTstr", str)
{P}NTnode = NewType("{P}NTnode", {P}N0)
{P}NTnt = NewType("{P}NTnt", {P}NTint)
{P}NTseq = NewType("{P}NTseq", tuple[{P}NTnode, ...])
{P}NTopt = NewType("{P}NTopt", Optional[{P}NTnode])
{P}NTints = NewType("{P}NTints", tuple[{P}NTint, ...])
"""

POSTLUDE = """
@dataclass(frozen=True)
class {P}L0(ASTNode):
    v: int = 0
"""


def render(a, P: str, quote_fwd: bool = False) -> str:
    """quote_fwd: render forward references as nested string literals (plain-annotation modules)."""
    k = a[0]
    if k in ("int", "str", "float", "bool"):
        return k
    if k == "any":
        return "Any"
    if k == "none":
        return "None"
    if k == "enum":
        return f"{P}Color"
    if k == "lit":
        return "Literal[" + ", ".join(repr(v) for v in a[1]) + "]"
    if k in ("barelist", "baredict", "bareset"):
        return k[4:]  # the unparametrised class itself: list / dict / set
    if k == "hashdict":
        return f"{P}HDict"  # a user's dict subclass that defines a hash of its own: a mutable collection all the same
    if k == "nt":
        return f"{P}{a[1]}"
    if k == "node":
        return f"{P}{a[1]}"
    if k == "fwd":
        return f'"{P}{a[1]}"' if quote_fwd else f"{P}{a[1]}"
    r = lambda x: render(x, P, quote_fwd)  # noqa: E731
    if k == "opt":
        return f"Optional[{r(a[1])}]" if a[2] == "typing" else f"{r(a[1])} | None"
    if k == "union":
        return "Union[" + ", ".join(r(x) for x in a[1]) + "]" if a[2] == "typing" else " | ".join(r(x) for x in a[1])
    if k == "tvar":
        return f"tuple[{r(a[1])}, ...]"
    if k == "tfix":
        return "tuple[" + ", ".join(r(x) for x in a[1]) + "]"
    if k == "tempty":
        return "tuple[()]"
    if k == "tbare":
        return "tuple"
    if k == "fset":
        return f"frozenset[{r(a[1])}]"
    if k == "seq":
        return f"Sequence[{r(a[1])}]"
    if k == "map":
        return f"Mapping[{r(a[1])}, {r(a[2])}]"
    if k == "list":
        return f"list[{r(a[1])}]"
    if k == "dict":
        return f"dict[{r(a[1])}, {r(a[2])}]"
    if k == "set":
        return f"set[{r(a[1])}]"
    raise ValueError(a)


def children_of(a) -> list:
    k = a[0]
    if k in ("opt", "tvar", "fset", "seq", "list", "set"):
        return [a[1]]
    if k in ("union", "tfix"):
        return list(a[1])
    if k in ("map", "dict"):
        return [a[1], a[2]]
    return []


def walk(a):
    yield a
    for c in children_of(a):
        yield from walk(c)


def has_fwd(a) -> bool:
    return any(x[0] == "fwd" for x in walk(a))


def has_nt(a) -> bool:
    return any(x[0] == "nt" for x in walk(a))


def nested_nt(a) -> bool:
    """a NewType below the top level"""
    return any(x[0] == "nt" for c in children_of(a) for x in walk(c))


def pipe_unevaluable(a) -> bool:
    """`None | None` cannot be evaluated by Python at all (no operand supports '|')"""
    for x in walk(a):
        if x[0] in ("opt", "union") and x[2] == "pipe":
            members = [x[1], ("none",)] if x[0] == "opt" else list(x[1])
            # left-to-right evaluation: the first two operands must support '|'
            first, second = members[0], members[1]
            def plain_none(m):
                return m == ("none",)
            if plain_none(first) and plain_none(second):
                return True
    return False


def default_src(a) -> str:
    """A default value of the right outer shape (tuples must be iterable for pyoak's digest)."""
    u = unwrap_nt(a)
    return "()" if u[0] in ("tvar", "tfix", "tempty", "tbare") else "None"


def pipe_with_quoted(a) -> bool:
    """'|' spelling applied to a quoted forward reference cannot even be evaluated in a plain module"""
    for x in walk(a):
        if x[0] in ("opt", "union") and x[2] == "pipe":
            members = [x[1]] if x[0] == "opt" else list(x[1])
            if any(m[0] == "fwd" for m in members):
                return True
    return False


# ---------------------------------------------------------------------------
# normalisation (what typing does) and reference classification
# ---------------------------------------------------------------------------
def unwrap_nt(a):
    k = a[0]
    if k == "nt":
        return unwrap_nt(NT_SUPER[a[1]])
    if k == "fwd":
        return ("node", a[1])
    if k == "opt":
        return ("opt", unwrap_nt(a[1]), a[2])
    if k in ("tvar", "fset", "seq", "list", "set"):
        return (k, unwrap_nt(a[1]))
    if k == "union":
        return ("union", tuple(unwrap_nt(x) for x in a[1]), a[2])
    if k == "tfix":
        return ("tfix", tuple(unwrap_nt(x) for x in a[1]))
    if k in ("map", "dict"):
        return (k, unwrap_nt(a[1]), unwrap_nt(a[2]))
    return a


def norm(a):
    """Flatten unions, drop duplicates, collapse one-member unions (as typing does)."""
    k = a[0]
    if k in ("opt", "union"):
        members = [a[1], ("none",)] if k == "opt" else list(a[1])
        flat = []
        for m in members:
            m = norm(m)
            if m[0] == "U":
                flat.extend(m[1])
            else:
                flat.append(m)
        out = []
        for m in flat:
            if m not in out:
                out.append(m)
        if len(out) == 1:
            return out[0]
        return ("U", tuple(out))
    if k in ("tvar", "fset", "seq", "list", "set"):
        return (k, norm(a[1]))
    if k == "tfix":
        return ("tfix", tuple(norm(x) for x in a[1]))
    if k in ("map", "dict"):
        return (k, norm(a[1]), norm(a[2]))
    if k == "lit":
        return a
    return a


def _walk_n(a):
    yield a
    k = a[0]
    if k == "U":
        for x in a[1]:
            yield from _walk_n(x)
    elif k in ("tvar", "fset", "seq", "list", "set"):
        yield from _walk_n(a[1])
    elif k == "tfix":
        for x in a[1]:
            yield from _walk_n(x)
    elif k in ("map", "dict"):
        yield from _walk_n(a[1])
        yield from _walk_n(a[2])


def classify(a) -> str:
    """CHILD | PROP | REJECT for an annotation AST (the statement of C11)."""
    n = norm(unwrap_nt(a))
    nodes = [x for x in _walk_n(n) if x[0] == "node"]
    mutable = [x for x in _walk_n(n) if x[0] in ("list", "dict", "set", "barelist", "baredict", "bareset", "hashdict")]

    def node_union(x, allow_none: bool) -> bool:
        if x[0] == "node":
            return True
        if x[0] == "U":
            ms = list(x[1])
            if ("none",) in ms:
                if not allow_none:
                    return False
                ms.remove(("none",))
            return len(ms) >= 1 and all(m[0] == "node" for m in ms)
        return False

    if node_union(n, True):
        return "CHILD"
    if n[0] == "tvar" and node_union(n[1], False):
        return "CHILD"
    if n[0] == "tfix" and len(n[1]) >= 1 and all(node_union(x, False) for x in n[1]):
        return "CHILD"
    if not nodes and not mutable:
        return "PROP"
    return "REJECT"


# ---------------------------------------------------------------------------
# enumeration
# ---------------------------------------------------------------------------
ATOMS = [
    ("int",), ("str",), ("bool",), ("float",), ("any",), ("none",), ("enum",), ("lit", ("a", 1, "alpha-beta", 65536)),  # members that CPython caches as singletons and members it does not
    ("nt", "NTint"), ("nt", "NTnode"), ("nt", "NTnt"), ("nt", "NTseq"), ("nt", "NTopt"), ("nt", "NTints"), ("node", "N0"), ("node", "N1"), ("node", "Fz"), ("node", "Coll"), ("node", "NAbc"), ("fwd", "L0"), ("barelist",), ("baredict",), ("bareset",), ("hashdict",),
]
R0 = [("int",), ("str",), ("none",), ("node", "N0"), ("node", "N1"), ("nt", "NTnode"), ("fwd", "L0")]
UNARY = [("opt", "typing"), ("opt", "pipe"), ("tvar",), ("tfix1",), ("fset",), ("seq",), ("list",), ("set",)]
BINARY = [("union", "typing"), ("union", "pipe"), ("tfix2",), ("map",), ("dict",)]


def mk_unary(c, x):
    if c[0] == "opt":
        return ("opt", x, c[1])
    if c[0] == "tfix1":
        return ("tfix", (x,))
    return (c[0], x)


def mk_binary(c, x, y):
    if c[0] == "union":
        return ("union", (x, y), c[1])
    if c[0] == "tfix2":
        return ("tfix", (x, y))
    return (c[0], x, y)


def enum_d1() -> list:
    out = list(ATOMS) + [("tempty",), ("tbare",)]
    for c in UNARY:
        for a in ATOMS:
            out.append(mk_unary(c, a))
    for c in BINARY:
        for a, b in itertools.product(R0, R0):
            out.append(mk_binary(c, a, b))
    # three-member unions
    out.append(("union", (("node", "N0"), ("node", "N1"), ("none",)), "typing"))
    out.append(("union", (("node", "N0"), ("node", "Fz"), ("none",)), "pipe"))
    out.append(("union", (("int",), ("str",), ("none",)), "pipe"))
    return out


def enum_d2() -> list:
    d1 = enum_d1()
    d1u = [mk_unary(c, a) for c in UNARY for a in R0]
    out = []
    for c in UNARY:
        for d in d1:
            if d[0] in ("int", "str", "bool", "float", "any", "none", "enum", "lit", "nt", "node", "fwd", "barelist", "baredict", "bareset", "hashdict"):
                continue  # that is depth 1
            out.append(mk_unary(c, d))
    for c in BINARY:
        for a in (("int",), ("node", "N0"), ("none",)):
            for d in d1u:
                out.append(mk_binary(c, a, d))
                out.append(mk_binary(c, d, a))
    return out


def gen_random(rng, depth: int):
    if depth <= 0 or rng.random() < 0.2:
        return rng.choice(ATOMS)
    r = rng.random()
    if r < 0.5:
        return mk_unary(rng.choice(UNARY), gen_random(rng, depth - 1))
    if r < 0.95:
        return mk_binary(rng.choice(BINARY), gen_random(rng, depth - 1), gen_random(rng, depth - 1))
    return rng.choice([("tempty",), ("tbare",)])


# ---------------------------------------------------------------------------
# reference conformance (C13)
# ---------------------------------------------------------------------------
def conforms(v: Any, a, env: dict) -> bool | None:
    """Does value v conform to annotation a? env: name -> class for nodes / enum.
    Returns None for don't-care combinations (bool vs float, Any-typed, Literal with 1/True)."""
    import enum as _enum

    a = unwrap_nt(a)
    k = a[0]
    if k == "any":
        return True
    if k == "bool":
        return isinstance(v, bool)
    if k == "int":
        return isinstance(v, int) and not isinstance(v, bool)
    if k == "float":
        if isinstance(v, bool):
            return None
        return isinstance(v, (int, float))
    if k == "str":
        return isinstance(v, str)
    if k == "none":
        return v is None
    if k == "enum":
        return isinstance(v, env["Color"])
    if k == "lit":
        if isinstance(v, bool) or isinstance(v, float):
            return None if any(v == x for x in a[1]) else False
        try:
            return any(type(v) is type(x) and v == x for x in a[1])
        except Exception:  # noqa: BLE001
            return False
    if k == "node":
        return isinstance(v, env[a[1]])
    if k == "opt":
        if v is None:
            return True
        return conforms(v, a[1], env)
    if k == "union":
        rs = [conforms(v, x, env) for x in a[1]]
        if any(r is True for r in rs):
            return True
        if any(r is None for r in rs):
            return None
        return False
    if k in ("tvar", "tfix", "tempty", "tbare"):
        if not isinstance(v, tuple):
            return False
        if k == "tbare":
            return True
        if k == "tempty":
            return len(v) == 0
        if k == "tvar":
            rs = [conforms(x, a[1], env) for x in v]
        else:
            if len(v) != len(a[1]):
                return False
            rs = [conforms(x, t, env) for x, t in zip(v, a[1])]
        if any(r is False for r in rs):
            return False
        if any(r is None for r in rs):
            return None
        return True
    if k in ("fset", "seq"):
        import collections.abc as cabc

        if k == "fset" and not isinstance(v, frozenset):
            return False
        if k == "seq" and (not isinstance(v, cabc.Sequence)):
            return False
        if k == "seq" and isinstance(v, str) and len(v) <= 1:
            return None  # the empty string is vacuously a sequence of anything; a one-character string contains itself
        # (a longer string is a sequence of one-character strings: it conforms to Sequence[str] and to nothing else)
        rs = [conforms(x, a[1], env) for x in v]
        if any(r is False for r in rs):
            return False
        if any(r is None for r in rs):
            return None
        return True
    if k == "map":
        import collections.abc as cabc

        if not isinstance(v, cabc.Mapping):
            return False
        rs = [conforms(x, a[1], env) for x in v.keys()] + [conforms(x, a[2], env) for x in v.values()]
        if any(r is False for r in rs):
            return False
        if any(r is None for r in rs):
            return None
        return True
    raise ValueError(a)
