"""A history in the *other* subsystems of the library, run before a check's own workload in some shards.

The properties quantify over everything a process may have done before: whatever the other parts of the library
(serialization with options and dialects, pretty printing, xpath and pattern compilation and matching, visitors and
transforms, Tree, the legacy API, configuration switches and back, registry clearing, further class definitions) leave
behind in shared state - module-level and class-level caches, lazily generated methods, registries, flags read once -
must not show in the operation a property talks about. Nothing is asserted here; the check that runs afterwards is
the oracle. Everything created is detached and dropped again, configuration is put back.
"""
from __future__ import annotations

import dataclasses
import gc
import io
import os
import random


def _quiet(fn, *a, **kw):
    try:
        return fn(*a, **kw)
    except Exception:  # noqa: BLE001 - (the foreign calls are context, not the subject)
        return None


def new_api_history(rng: random.Random, counts: dict) -> None:
    from pyoak import config
    from pyoak.match.pattern import MultiPatternMatcher, NodeMatcher
    from pyoak.match.xpath import ASTXpath
    from pyoak.node import AST_SERIALIZE_DIALECT_KEY, ASTNode, ASTSerializationDialects
    from pyoak.origin import SOURCE_OPTIMIZED_SERIALIZATION_KEY
    from pyoak.serialize import SerializationOption
    from pyoak.tree import Tree
    from pyoak.visitor import ASTTransformVisitor, ASTVisitor

    from . import gen as G
    from . import origins as O
    from .spec import build
    from .universe import core_universe

    U = core_universe()
    P = U.P
    if rng.random() < 0.5:
        # the very first instances of the model's classes are made while run-time type checks are on (well-typed default
        # instances), then the flag goes back
        from .universe import warm_up

        was_tc = config.RUNTIME_TYPE_CHECK
        config.RUNTIME_TYPE_CHECK = True
        try:
            _quiet(warm_up, U, rng)
        finally:
            config.RUNTIME_TYPE_CHECK = was_tc
        counts["first-instances-under-type-checks"] = 1
    tg = G.TreeGen(rng, U, max_nodes=10, max_depth=4, max_width=3, share=0.05, twin=0.2, p_origin=0.5, hostile=0.0, exclude=("Blob",))
    roots = []
    for _ in range(6):
        r = _quiet(lambda: build(U, tg.tree()))
        if r is not None:
            roots.append(r)
    steps = ["serialize", "rich", "xpath", "pattern", "visit", "tree", "config", "traverse", "copy", "classes", "replace", "props"]
    rng.shuffle(steps)
    for step in steps:
        counts[step] = counts.get(step, 0) + 1
        for r in roots:
            if step == "serialize":
                for opts in rng.sample((
                    None,
                    {SerializationOption.SKIP_CLASS: True},
                    {SerializationOption.SORT_KEYS: True, SerializationOption.SKIP_ID: True} if hasattr(SerializationOption, "SKIP_ID") else {SerializationOption.SORT_KEYS: True},
                    {AST_SERIALIZE_DIALECT_KEY: ASTSerializationDialects.AST_EXPLORER},
                    {AST_SERIALIZE_DIALECT_KEY: ASTSerializationDialects.AST_TEST, SerializationOption.SORT_KEYS: True},
                    {SOURCE_OPTIMIZED_SERIALIZATION_KEY: True},
                ), 6):
                    d = _quiet(r.as_dict, serialization_options=opts)
                    _quiet(r.to_json, serialization_options=opts)
                    _quiet(r.to_msgpck, serialization_options=opts)
                    _quiet(r.to_yaml, serialization_options=opts)
                    if d is not None and opts is None:
                        _quiet(type(r).as_obj, d)
                # a failing call as well (unknown type tag below the root)
                _quiet(type(r).as_obj, {"__type": type(r).__name__, "id": "x", "content_id": "y", "origin": {"__type": "NoSuchOrigin"}})
            elif step == "rich":
                from rich.console import Console

                _quiet(Console(file=io.StringIO(), width=100).print, r)
                _quiet(repr, r)
                _quiet(str, r.origin)
            elif step == "xpath":
                for text in (f"//{P}Leaf", f"/{P}Bin/@left", f"//@items[1]{P}Expr", f"//{P}Un//{P}Leaf", f"@child {P}Expr", "//*", f"/{P}List"):
                    xp = _quiet(ASTXpath, text)
                    if xp is None:
                        continue
                    got = _quiet(lambda: list(xp.findall(r))) or []
                    _quiet(r.find, text)
                    for g in got[:3]:
                        _quiet(xp.match, r, g)
                _quiet(ASTXpath, "//[[")
            elif step == "pattern":
                texts = [f"({P}Leaf @v -> a @s -> b)", "(* @items=[(*) -> x * -> rest] -> all)", f"({P}Bin @left=({P}Expr) -> l @right -> r)", f'({P}Leaf|{P}Un @v="1.*")', f"({P}Call @args=[* -> q] @kwargs=$q)", "(*)"]
                ms = []
                for text in texts:
                    m, _ = NodeMatcher.from_pattern(text)
                    if m is not None:
                        ms.append((text, m))
                        for n in list(r.dfs())[:8]:
                            _quiet(m.match, n.node)
                        _quiet(m.match, r)
                _quiet(NodeMatcher.from_pattern, "(((")
                mp = _quiet(MultiPatternMatcher, [(f"r{i}", t) for i, (t, _) in enumerate(ms)])
                if mp is not None:
                    _quiet(mp.match, r)
            elif step == "visit":
                class V(ASTVisitor):
                    def generic_visit(self, node):
                        return sum((self.visit(c) or 0) for c in node.get_child_nodes()) + 1

                _quiet(lambda: V().visit(r))

                def on_leaf(self_, node):
                    return dataclasses.replace(node, origin=O.build_origin(("gen", 2)))

                def boom(self_, node):
                    raise RuntimeError("foreign history")

                _quiet(lambda: type("FT", (ASTTransformVisitor,), {f"visit_{P}Leaf": on_leaf})().transform(r))
                _quiet(lambda: type("FT2", (ASTTransformVisitor,), {f"visit_{P}Leaf": lambda s_, n_: None})().transform(r))
                _quiet(lambda: type("FT3", (ASTTransformVisitor,), {f"visit_{P}Leaf": boom})().transform(r))
                _quiet(lambda: type("FS", (V,), {"strict": True})().visit(r))
            elif step == "tree":
                t = _quiet(Tree, r) or _quiet(r.to_tree)
                if t is not None:
                    for n in list(r.dfs())[:6]:
                        _quiet(t.get_parent, n.node)
                        _quiet(t.get_depth, n.node)
                        _quiet(t.get_xpath, n.node)
                        _quiet(lambda: list(t.get_ancestors(n.node)))
                        _quiet(t.is_ancestor, n.node, r)
                        _quiet(t.get_first_ancestor_of_type, n.node, U.cls[f"{P}Expr"])
            elif step == "config":
                was = (config.RUNTIME_TYPE_CHECK, config.ID_DIGEST_SIZE, config.TRACE_LOGGING)
                config.RUNTIME_TYPE_CHECK = not was[0]
                config.ID_DIGEST_SIZE = 4
                x = _quiet(U.cls[f"{P}Leaf"], v=rng.randrange(1000))
                y = _quiet(lambda: r.duplicate())
                config.RUNTIME_TYPE_CHECK, config.ID_DIGEST_SIZE, config.TRACE_LOGGING = was
                for n in (x, y):
                    if n is not None:
                        _quiet(n.detach)
            elif step == "traverse":
                _quiet(lambda: list(r.dfs(prune=lambda i: False, filter=lambda i: True)))
                _quiet(lambda: list(r.dfs(bottom_up=True)))
                _quiet(lambda: list(r.bfs()))
                _quiet(lambda: list(r.gather((U.cls[f"{P}Leaf"], U.cls[f"{P}Bin"]))))
                _quiet(lambda: (r.children, list(r.get_child_nodes_with_field(sort_keys=True)), list(r.iter_child_fields()), r.to_properties_dict()))
                _quiet(lambda: list(r.get_properties(skip_id=False, skip_origin=False, skip_content_id=False, sort_keys=True)))
            elif step == "copy":
                import copy
                import pickle

                _quiet(copy.copy, r)
                _quiet(copy.deepcopy, r)
                _quiet(lambda: pickle.loads(pickle.dumps(r)))
                d = _quiet(r.duplicate)
                if d is not None:
                    _quiet(lambda: (d == r, hash(d), d.is_equal(r)))
                    _quiet(d.detach)
            elif step == "replace":
                for n in list(r.dfs())[:5]:
                    _quiet(n.node.replace, origin=O.build_origin(("gen", 1)))
                    _quiet(n.node.replace, no_such_field=1)
            elif step == "props":
                _quiet(ASTNode.get_any, r.id)
                _quiet(type(r).get, r.id)
                _quiet(lambda: (r.content_id, r.id, r.origin.fqn, r.origin.get_raw()))
        if step == "classes":
            # further node classes are defined (and used once) while the model is in use
            k = rng.randrange(10**6)
            src = (
                f"@dataclass(frozen=True)\nclass {P}Foreign{k}({P}Expr):\n    v: int = 0\n    kid: {P}Expr | None = None\n    more: tuple[{P}Expr, ...] = ()\n\n\n"
                f"@dataclass(frozen=True)\nclass {P}ForeignLeaf{k}({P}Leaf):\n    extra: str = ''\n"
            )
            try:
                exec(compile(src, "<foreign history>", "exec", dont_inherit=True), U.module.__dict__)
                a = U.module.__dict__[f"{P}ForeignLeaf{k}"](v=1, extra="x")
                b = U.module.__dict__[f"{P}Foreign{k}"](kid=a, more=(U.cls[f"{P}Leaf"](v=2),))
                _quiet(lambda: list(b.dfs()))
                _quiet(b.as_dict)
                b.detach()
            except Exception:  # noqa: BLE001
                pass
    for r in roots:
        _quiet(r.detach)
    for n in list(__import__("pyoak.node", fromlist=["NODE_REGISTRY"]).NODE_REGISTRY.values()):
        _quiet(n.detach_self)
    del roots
    gc.collect()


def legacy_history(rng: random.Random, counts: dict, runtime_only: bool) -> None:
    import warnings

    warnings.simplefilter("ignore")
    from pyoak.legacy.match.xpath import ASTXpath as LXpath
    from pyoak.legacy.node import ASTTransformer, ASTTransformVisitor, ASTVisitor, AwareASTNode

    from . import origins as O
    from .legacy_universe import legacy_universe

    U = legacy_universe(runtime_only=runtime_only)
    P = U.P
    NO = O.build_origin(("no",))
    Leaf, Un, Lst = U.cls[f"{P}Leaf"], U.cls[f"{P}Un"], U.cls[f"{P}List"]
    roots = []
    for k in range(4):
        base = rng.randrange(10**6) + 5000000
        a, b, c = Leaf(v=base, origin=NO), Leaf(v=base + 1, origin=NO), Leaf(v=base + 2, origin=NO)
        roots.append(Lst(items=(Un(child=a, origin=NO), b, Lst(items=(c,), origin=NO)), origin=NO))
    if rng.random() < 0.6:
        # class-level introspection of every class of the model (a schema generator run at import time)
        for c in U.cls.values():
            _quiet(lambda: list(c.get_property_fields()))
            _quiet(lambda: list(c.get_child_fields()))
        counts["legacy-class-introspection"] = 1
    steps = ["traverse", "xpath", "serialize", "visit", "replace", "detach-attach", "duplicate", "rich"]
    rng.shuffle(steps)
    for step in steps:
        counts["legacy-" + step] = counts.get("legacy-" + step, 0) + 1
        for r in list(roots):
            if step == "traverse":
                _quiet(lambda: list(r.dfs()))
                _quiet(lambda: list(r.dfs(bottom_up=True, skip_self=True)))
                _quiet(lambda: list(r.bfs(prune=lambda n: False)))
                _quiet(lambda: list(r.gather(Leaf)))
                _quiet(lambda: (r.children, list(r.get_child_nodes_with_field()), list(r.get_properties()), list(r.ancestors()), r.get_depth()))
            elif step == "xpath":
                _quiet(r.calculate_xpath)
                for text in (f"//{P}Leaf", f"/{P}List/@items[0]{P}Un", f"@child {P}Leaf", "//*"):
                    xp = _quiet(LXpath, text)
                    if xp is not None:
                        for n in list(r.dfs())[:5]:
                            _quiet(xp.match, n)
            elif step == "serialize":
                d = _quiet(r.as_dict)
                _quiet(r.to_json)
                if d is not None:
                    _quiet(r.detach)
                    back = _quiet(type(r).as_obj, d)
                    if back is not None and back is not r:
                        roots.append(back)
                    elif r.detached:
                        _quiet(r.attach)
            elif step == "visit":
                class LV(ASTVisitor):
                    def generic_visit(self, node):
                        for c_ in node.get_child_nodes():
                            self.visit(c_)

                _quiet(lambda: LV().visit(r))
                _quiet(lambda: type("LT", (ASTTransformVisitor,), {f"visit_{P}Leaf": lambda s_, n_: n_.replace(v=n_.v + 1)})().transform(r))

                def boom(self_, node):
                    raise RuntimeError("foreign history")

                _quiet(lambda: type("LT2", (ASTTransformVisitor,), {f"visit_{P}Leaf": boom})().transform(r))
                if ASTTransformer is not None:
                    _quiet(lambda: ASTTransformer)
            elif step == "replace":
                for n in [x for x in r.dfs() if isinstance(x, Leaf)][:2]:
                    _quiet(n.replace, v=n.v + 7)
                    _quiet(n.replace, id="x")
                lf = next((x for x in r.dfs() if isinstance(x, Leaf) and x.parent is not None), None)
                if lf is not None:
                    _quiet(lf.replace_with, Leaf(v=rng.randrange(10**6) + 6000000, origin=NO, create_detached=True))
            elif step == "detach-attach":
                _quiet(r.detach)
                _quiet(r.attach)
                _quiet(r.attach)  # refused: already attached
            elif step == "duplicate":
                d = _quiet(r.duplicate)
                if d is not None:
                    _quiet(lambda: (d == r, d.is_equal(r)))
                    _quiet(d.detach)
                dc = _quiet(r.duplicate, as_detached_clone=True)
                del dc
            elif step == "rich":
                from rich.console import Console

                _quiet(Console(file=io.StringIO(), width=100).print, r)
                _quiet(repr, r)
    for r in roots:
        _quiet(r.detach)
    for n in list(AwareASTNode._nodes.values()):
        _quiet(n.detach_self)
    del roots
    gc.collect()


def foreign_history(prop: str, seed: str, shard: int) -> dict:
    """Runs the prelude that fits the property's API (new / legacy / both for the mixed ones) and returns what was done."""
    rng = random.Random(f"{seed}:foreign:{prop}:{shard}")
    counts: dict = {}
    legacy_props = {"C18", "C19", "C20"}
    if prop in legacy_props or rng.random() < 0.3:
        try:
            legacy_history(rng, counts, runtime_only=(shard % 2 == 0))
        except Exception as e:  # noqa: BLE001
            counts["legacy-aborted"] = f"{type(e).__name__}: {e}"[:120]
    if prop not in legacy_props or rng.random() < 0.5:
        try:
            new_api_history(rng, counts)
        except Exception as e:  # noqa: BLE001
            counts["new-api-aborted"] = f"{type(e).__name__}: {e}"[:120]
    os.environ.pop("VERIF_FOREIGN_RUNNING", None)
    return counts
