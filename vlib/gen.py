"""Random generation of tree specs and property values (seeded `random.Random`)."""
from __future__ import annotations

from pathlib import Path
from typing import Any

from . import origins as O
from .spec import S, deep_copy, preorder, child_slots
from .universe import FS, Universe

SEP_ALPHABET = [":", "=", "(", ")", "[", "]", "@", "<", ">", "'", "|", ",", " ", "<class 'str'>", "-1", "_1"]

PLAIN_STRS = ["", "a", "b", "ab", "x1", "foo", "Foo", "1", "0", "True", "None", "a b", "-", "+"]
# canonically equivalent but different strings (NFC / NFD, compatibility look-alikes), case pairs, digit look-alikes
UNICODE_STRS = ["caf\u00e9", "cafe\u0301", "\u2126", "\u03a9", "\u00c5", "A\u030a", "\u212b", "stra\u00dfe", "strasse", "\u0661", "1", "\uff11", "a\u00a0b", "a b", "a\x00b", "ab"]


def sep_string(rng) -> str:
    n = rng.randint(1, 6)
    parts = []
    for _ in range(n):
        parts.append(rng.choice(SEP_ALPHABET) if rng.random() < 0.6 else rng.choice(PLAIN_STRS + ["s", "v", "aa", "ab"]))
    return "".join(parts)


# long values of one length that differ in the middle only (an embedded text with one edited character)
LONG_STRS = ["L" * 300 + "a" + "R" * 300, "L" * 300 + "b" + "R" * 300, "L" * 301 + "R" * 300]


def gen_str(rng, hostile: float = 0.15) -> str:
    if rng.random() < hostile:
        return sep_string(rng)
    if rng.random() < 0.04:
        return rng.choice(LONG_STRS)
    if rng.random() < 0.12:
        return rng.choice(UNICODE_STRS)
    return rng.choice(PLAIN_STRS)


def gen_value(rng, U: Universe, f: FS, hostile: float = 0.15) -> Any:
    k = f.shape
    if k == "int":
        return rng.choice([0, 1, 2, 3, -1, 7, 10, 255, 2**31, -(2**40)])
    if k == "str":
        return gen_str(rng, hostile)
    if k == "ostr":
        return None if rng.random() < 0.4 else gen_str(rng, hostile)
    if k == "bool":
        return rng.random() < 0.5
    if k == "float":
        return rng.choice([0.0, 1.0, 1.5, -2.25, 1e10, 0.1, -0.0, 0.0, -0.0])  # (0.0 == -0.0, yet they are two values: their text differs)
    if k == "none":
        return None
    if k == "enum":
        col = U.module.__dict__[f.ann]
        return rng.choice(list(col))
    if k == "path":
        return Path(rng.choice(["a/b", "x", "/abs/p.txt", "a/../b"]))
    if k == "lit":
        return rng.choice(["a", "b", 1])
    if k == "tint":
        return tuple(rng.choice([0, 1, 2, 3]) for _ in range(rng.randint(0, 3)))
    if k == "tstr":
        return tuple(gen_str(rng, hostile) for _ in range(rng.randint(0, 3)))
    if k == "decimal":
        from decimal import Decimal

        return Decimal(rng.choice(["1.001", "1.002", "1.00", "1", "2.5", "2.50", "-0.004"]))
    if k == "valueobj":
        m = U.module.__dict__
        P_ = U.P
        I, St, L = m[f"{P_}IntT"], m[f"{P_}StrT"], m[f"{P_}ListOf"]
        Q = m[f"{P_}Qty"]
        return rng.choice([None, I(), St(), L(I()), L(St()), L(L(I())), L(L(St())), L(()), L(None), (I(),), (St(),), Q(2.5, "kg"), Q(2.5, "lb"), Q(2.5, "kg"), Q(1.0, "")])
    if k == "nested":
        return rng.choice([(1.0, 2.0, 3.0), ((1, 2), 3), ((1, 2, 3),), (1, (2, 3)), ((1,), (2, 3)), (1, 2, 3), ((),), (), ("pkg", ("mod", "cls")), ("pkg", ("mod",), "cls"), (("pkg", "mod"), "cls")])
    if k == "flags":
        return U.module.__dict__[f.ann](rng.choice([0, 1, 2, 3, 4, 8, 12, 5]))
    if k == "senum":
        return rng.choice(list(U.module.__dict__[f.ann]))
    if k == "symbol":
        return rng.choice([None] + U.module.__dict__[f"{U.P}SYMBOLS"])
    if k == "bytes":
        return rng.choice([b"", b"abc", b"caf\xe9", b"caf\xe8", b"\xff\xfe", b"\xef\xbf\xbd", b"caf\xc3\xa9", b"\x00", b"abd"])
    if k == "handle":
        return U.module.__dict__["_HANDLE"]  # (the one opaque handle object of the generated module)
    if k == "fset":
        n = rng.randint(0, 4)
        pool = [0, 8, 16, 24, 32, 1, 2, -1, -2, 2**61 - 1]  # incl. members whose builtin hashes coincide (-1 / -2, 0 / 2**61-1)
        if rng.random() < 0.3:
            return frozenset([rng.choice([-1, -2, 0, 2**61 - 1])])
        elems = rng.sample(pool, n)
        return frozenset(elems)
    raise ValueError(k)


def gen_props(rng, U: Universe, cls: str, p_set: float = 0.7, hostile: float = 0.15) -> dict[str, Any]:
    out = {}
    for f in U.prop_fields(cls):
        if not f.init:
            continue
        if (f.default is None and f.factory is None) or rng.random() < p_set:
            out[f.name] = gen_value(rng, U, f, hostile)
    return out


class TreeGen:
    def __init__(
        self,
        rng,
        U: Universe,
        *,
        max_nodes: int = 30,
        max_depth: int = 6,
        max_width: int = 5,
        p_origin: float = 0.5,
        hostile: float = 0.15,
        exclude: tuple[str, ...] = (),
        opaque: bool = False,
        share: float = 0.0,
        twin: float = 0.1,
        leaf_bias: float = 0.35,
    ):
        self.rng = rng
        self.U = U
        self.max_nodes = max_nodes
        self.max_depth = max_depth
        self.max_width = max_width
        self.p_origin = p_origin
        self.hostile = hostile
        # the class with an opaque (unserializable, identity-equal) property value takes part only on request
        self.exclude = tuple(exclude) + (() if opaque else (f"{getattr(U, 'P', 'U')}Handle",))
        if any(x.endswith("Blob") for x in exclude):
            # generators that leave out what has no (faithful) wire form also leave out these
            self.exclude += tuple(f"{getattr(U, 'P', 'U')}{n}" for n in ("Meta", "Typed", "Nested"))
        self.share = share
        self.twin = twin
        self.leaf_bias = leaf_bias
        self.budget = 0
        self.pool: list[S] = []  # subtrees generated so far (for twins / sharing)

    def tree(self, root_types: tuple[str, ...] | None = None) -> S:
        self.budget = self.rng.randint(1, self.max_nodes)
        self.pool = []
        if root_types is None:
            root_types = (self.U.root_base,)
        return self._node(root_types, 0)

    def _candidates(self, types: tuple[str, ...], depth: int) -> list[str]:
        cs = [c for c in self.U.concrete_subs(types) if c not in self.exclude]
        return cs

    def _is_leafy(self, c: str) -> bool:
        return all(f.shape in ("opt", "tuple", "list") for f in self.U.child_fields(c))

    def _node(self, types: tuple[str, ...], depth: int) -> S:
        rng = self.rng
        U = self.U
        cands = self._candidates(types, depth)
        # reuse: twin (content-identical copy) or shared object
        compat = [p for p in self.pool if any(U.is_sub(p.cls, t) for t in types)]
        if compat and rng.random() < self.share:
            return rng.choice(compat)
        if compat and rng.random() < self.twin:
            t = deep_copy(rng.choice(compat))
            if rng.random() < 0.5:
                t.origin = O.gen_origin(rng) if rng.random() < self.p_origin else ("no",)
            return t
        self.budget -= 1
        leafy = [c for c in cands if self._is_leafy(c)]
        if (self.budget <= 0 or depth >= self.max_depth) and leafy:
            c = rng.choice(leafy)
            terminal = True
        else:
            if leafy and rng.random() < self.leaf_bias:
                c = rng.choice(leafy)
            else:
                c = rng.choice(cands)
            terminal = self.budget <= 0 or depth >= self.max_depth
        s = S(c, gen_props(rng, U, c, hostile=self.hostile), {}, O.gen_origin(rng) if rng.random() < self.p_origin else ("no",))
        for f in U.child_fields(c):
            if f.shape == "one":
                s.kids[f.name] = self._node(f.types, depth + 1)
            elif f.shape == "opt":
                if terminal or rng.random() < 0.45:
                    if rng.random() < 0.5:
                        s.kids[f.name] = None
                else:
                    s.kids[f.name] = self._node(f.types, depth + 1)
            elif f.shape in ("tuple", "list"):
                if terminal:
                    if rng.random() < 0.5:
                        s.kids[f.name] = ()
                else:
                    w = rng.choice([0, 1, 1, 2, 2, 3, self.max_width])
                    s.kids[f.name] = tuple(self._node(f.types, depth + 1) for _ in range(w))
            elif f.shape.startswith("fixed"):
                k = int(f.shape[5:])
                s.kids[f.name] = tuple(self._node(f.types, depth + 1) for _ in range(k))
        self.pool.append(s)
        return s


def shape_fingerprint(U: Universe, s: S) -> str:
    """Structural fingerprint used for distinctness counting."""
    import hashlib

    from .spec import content_key, origin_profile

    h = hashlib.blake2b(repr((content_key(U, s), origin_profile(U, s))).encode("utf-8", "surrogatepass"), digest_size=8)
    return h.hexdigest()
