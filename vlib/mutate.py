"""Single-edit mutations of tree specs: grow pools that contain equal and
'almost equal' pairs (independent samples are almost never equal)."""
from __future__ import annotations

from typing import Any

from . import gen as G
from . import origins as O
from .spec import S, deep_copy, preorder
from .universe import Universe

TYPE_CONFUSION = [
    (1, True), (0, False), (1, "1"), (1, 1.0), (0, 0.0), (None, "None"), (True, "True"), ("", None), (2, "2"), (1.0, True),
]


def _positions(U: Universe, s: S):
    return preorder(U, s)


def _pick(rng, xs):
    return xs[rng.randrange(len(xs))] if xs else None


def mutate(rng, U: Universe, s0: S, kinds: list[str] | None = None) -> tuple[S, str, bool] | None:
    """Returns (mutated deep copy, kind, content_changed) or None if the chosen edit is not applicable."""
    s = deep_copy(s0)
    pos = _positions(U, s)
    kind = rng.choice(
        kinds
        or [
            "prop_value", "prop_value", "prop_type", "tuple_perm", "tuple_drop", "tuple_dup", "move_child", "class_swap",
            "origin_change", "origin_change", "noncompare_change", "fset_reorder", "opt_toggle", "long_tail", "swap_str_props", "tuple_prop_perm",
        ]
    )
    P = getattr(U, "P", "U")
    if kind == "prop_value":
        cands = [(p, f) for p in pos for f in U.prop_fields(p.spec.cls) if f.compare and f.init and f.shape != "none"]
        c = _pick(rng, cands)
        if not c:
            return None
        p, f = c
        from .spec import effective_props, tv

        old = effective_props(U, p.spec)[f.name]
        for _ in range(10):
            new = G.gen_value(rng, U, f, hostile=0.1)
            if tv(new) != tv(old):
                p.spec.props[f.name] = new
                return s, kind, True
        return None
    if kind == "prop_type":
        from .spec import effective_props

        cands = []
        for p in pos:
            ep = effective_props(U, p.spec)
            for f in U.prop_fields(p.spec.cls):
                if not (f.compare and f.init):
                    continue
                for a, b in TYPE_CONFUSION:
                    for x, y in ((a, b), (b, a)):
                        if type(ep[f.name]) is type(x) and ep[f.name] == x:
                            cands.append((p, f, y))
        c = _pick(rng, cands)
        if not c:
            return None
        p, f, y = c
        p.spec.props[f.name] = y
        return s, kind, True
    if kind in ("tuple_perm", "tuple_drop", "tuple_dup"):
        cands = [(p, fn) for p in pos for fn, v in p.spec.kids.items() if isinstance(v, tuple) and len(v) >= (2 if kind == "tuple_perm" else 1)]
        cands = [(p, fn) for p, fn in cands if not next(f for f in U.child_fields(p.spec.cls) if f.name == fn).shape.startswith("fixed") or kind == "tuple_perm"]
        c = _pick(rng, cands)
        if not c:
            return None
        p, fn = c
        v = list(p.spec.kids[fn])
        if kind == "tuple_perm":
            i, j = rng.sample(range(len(v)), 2)
            v[i], v[j] = v[j], v[i]
            from .spec import content_key

            changed = content_key(U, v[i]) != content_key(U, v[j])
            p.spec.kids[fn] = tuple(v)
            return s, kind, changed
        if kind == "tuple_drop":
            del v[rng.randrange(len(v))]
        else:
            i = rng.randrange(len(v))
            v.insert(rng.randrange(len(v) + 1), deep_copy(v[i]))
        p.spec.kids[fn] = tuple(v)
        return s, kind, True
    if kind == "move_child":
        cands = []
        for p in pos:
            fs = U.child_fields(p.spec.cls)
            for f1 in fs:
                for f2 in fs:
                    if f1.name == f2.name or f1.shape != f2.shape or f1.shape not in ("opt", "tuple"):
                        continue
                    v1, v2 = p.spec.kids.get(f1.name), p.spec.kids.get(f2.name)
                    if f1.shape == "opt" and v1 is not None and v2 is None and any(U.is_sub(v1.cls, t) for t in f2.types):
                        cands.append((p, f1, f2))
                    if f1.shape == "tuple" and v1 and not v2 and all(any(U.is_sub(c.cls, t) for t in f2.types) for c in v1):
                        cands.append((p, f1, f2))
        c = _pick(rng, cands)
        if not c:
            return None
        p, f1, f2 = c
        p.spec.kids[f2.name] = p.spec.kids[f1.name]
        p.spec.kids[f1.name] = None if f1.shape == "opt" else ()
        return s, kind, True
    if kind == "class_swap":
        sib = {f"{P}Leaf": f"{P}Leaf2", f"{P}Leaf2": f"{P}Leaf", f"{P}Left": f"{P}Both", f"{P}Falsy": f"{P}Leaf"}
        cands = [p for p in pos if p.spec.cls in sib]
        p = _pick(rng, cands)
        if not p:
            return None
        new = sib[p.spec.cls]
        # the new class must be admissible at this position and accept the same fields
        if p.parent is not None:
            f = next(f for f in U.child_fields(p.parent.spec.cls) if f.name == p.field)
            if not any(U.is_sub(new, t) for t in f.types):
                return None
        names_new = {f.name for f in U.all_fields(new)}
        if not (set(p.spec.props) | set(p.spec.kids)) <= names_new:
            return None
        p.spec.cls = new
        return s, kind, True
    if kind == "origin_change":
        p = _pick(rng, pos)
        for _ in range(10):
            o = O.gen_origin(rng, p_no=0.25)
            if O.canon_spec(o) != O.canon_spec(p.spec.origin):
                p.spec.origin = o
                return s, kind, False
        return None
    if kind == "noncompare_change":
        cands = [(p, f) for p in pos for f in U.prop_fields(p.spec.cls) if not f.compare and f.init]
        c = _pick(rng, cands)
        if not c:
            return None
        p, f = c
        p.spec.props[f.name] = "nc" + str(rng.randrange(1000))
        return s, kind, False
    if kind == "fset_reorder":
        cands = [(p, k) for p in pos for k, v in p.spec.props.items() if isinstance(v, frozenset) and len(v) >= 2]
        c = _pick(rng, cands)
        if not c:
            return None
        p, k = c
        elems = sorted(p.spec.props[k])
        order = elems[:]
        rng.shuffle(order)
        p.spec.props[k] = frozenset(order) if rng.random() < 0.5 else frozenset(reversed(elems))
        return s, kind, False
    if kind == "opt_toggle":
        cands = []
        for p in pos:
            for f in U.child_fields(p.spec.cls):
                if f.shape == "opt":
                    cands.append((p, f))
        c = _pick(rng, cands)
        if not c:
            return None
        p, f = c
        if p.spec.kids.get(f.name) is None:
            falsy = [c for c in (f"{P}Falsy", f"{P}FalsyB", f"{P}Leaf") if any(U.is_sub(c, t) for t in f.types)]
            if not falsy:
                return None
            p.spec.kids[f.name] = S(rng.choice(falsy), {})
        else:
            p.spec.kids[f.name] = None
        return s, kind, True
    if kind == "long_tail":
        cands = [(p, f) for p in pos for f in U.prop_fields(p.spec.cls) if f.compare and f.init and f.shape == "str"]
        c = _pick(rng, cands)
        if not c:
            return None
        p, f = c
        n = rng.choice([50, 200, 2000])
        base = "q" * n
        p.spec.props[f.name] = base + rng.choice(["A", "B", "", "AB"])
        return s, kind, True
    if kind == "swap_str_props":
        cands = []
        for p in pos:
            fs = [f for f in U.prop_fields(p.spec.cls) if f.compare and f.init and f.shape == "str"]
            if len(fs) >= 2:
                cands.append((p, fs))
        c = _pick(rng, cands)
        if not c:
            return None
        p, fs = c
        from .spec import effective_props

        ep = effective_props(U, p.spec)
        f1, f2 = rng.sample(fs, 2)
        if ep[f1.name] == ep[f2.name]:
            p.spec.props[f1.name] = "x"
            p.spec.props[f2.name] = ""
            return s, kind, True
        p.spec.props[f1.name], p.spec.props[f2.name] = ep[f2.name], ep[f1.name]
        return s, kind, True
    if kind == "tuple_prop_perm":
        cands = [(p, k) for p in pos for k, v in p.spec.props.items() if isinstance(v, tuple) and len(set(v)) >= 2]
        c = _pick(rng, cands)
        if not c:
            return None
        p, k = c
        v = list(p.spec.props[k])
        v.reverse()
        if tuple(v) == p.spec.props[k]:
            return None
        p.spec.props[k] = tuple(v)
        return s, kind, True
    return None


def sep_injection_pairs(U: Universe) -> list[tuple[S, S]]:
    """Pairs of different contents whose digest pre-images coincide if the format
    does not escape its separators (documented format of the content digest)."""
    P = getattr(U, "P", "U")
    out = []
    for u, v, w in (("1", "2", "3"), ("", "", ""), ("a(b", "c)", "d=e")):
        sep = f"):ab=<class 'str'>("
        out.append((S(f"{P}Init", {"aa": u + sep + v, "ab": w}), S(f"{P}Init", {"aa": u, "ab": v + sep + w})))
    return out
