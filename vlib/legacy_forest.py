"""Invariant checker (C18) and frame snapshots (C19) over a live forest of legacy nodes.

Everything structural is read from the dataclass fields the class specs mark as
child fields; the library's own child enumeration is never used by the oracle.
"""
from __future__ import annotations

import dataclasses
from typing import Any

from . import origins as O
from .legacy import struct_children, struct_subtree
from .universe import Universe


class Forest:
    def __init__(self, U: Universe):
        self.U = U
        self.handles: list[Any] = []  # every legacy node ever created / received (strong refs)
        self._seen: set[int] = set()
        self.rb = 0
        self.cross_tree_ancestor_queries = 0

    def add(self, *nodes):
        for n in nodes:
            if n is None:
                continue
            for x in struct_subtree(self.U, n):
                if id(x) not in self._seen:
                    self._seen.add(id(x))
                    self.handles.append(x)

    # ---- classification of handles
    def attached(self, n) -> bool:
        return not n.detached

    def attached_roots(self):
        return [n for n in self.handles if not n.detached and n.parent is None]

    def free_nodes(self):
        """attached roots and detached nodes"""
        return [n for n in self.handles if n.detached or n.parent is None]

    # ---- admissibility (decided structurally, before the call)
    def attach_ok(self, n, new_id: str | None = None, extra_taken: set[str] | None = None) -> bool:
        """Would attaching detached `n` (with its structural subtree) succeed and put no object
        at two positions? Every detached node below must have a free id, every attached node
        below must be an attached root (it is then re-parented; its own subtree is attached to it)."""
        from pyoak.legacy.node import AwareASTNode

        seen_ids: set[str] = set(extra_taken or ())
        seen_objs: set[int] = set()
        stack = [(n, True)]
        while stack:
            x, top = stack.pop()
            if id(x) in seen_objs:
                return False
            seen_objs.add(id(x))
            xid = new_id if (top and new_id is not None) else x.id
            if x.detached or (top and new_id is not None):
                if AwareASTNode.get_any(xid) is not None and AwareASTNode.get_any(xid) is not x:
                    return False
                if xid in seen_ids:
                    return False
                seen_ids.add(xid)
                for _, _, c in struct_children(self.U, x):
                    stack.append((c, False))
            else:
                if x.parent is not None and not top:
                    return False
                # attached root: its subtree is consistent by invariant; collect objects to detect overlap
                for y in struct_subtree(self.U, x)[1:]:
                    if id(y) in seen_objs:
                        return False
                    seen_objs.add(id(y))
        return True

    def objs_of(self, n) -> set[int]:
        return {id(x) for x in struct_subtree(self.U, n)}

    def tree_objs_containing(self, n) -> set[int]:
        """objects of the whole attached tree n belongs to (via parent links), or of n's own subtree"""
        top = n
        guard = 0
        while top.parent is not None and guard < 10000:
            top = top.parent
            guard += 1
        return self.objs_of(top) | self.objs_of(n)

    # ---- invariants I1..I5
    def check(self, deep: bool = True) -> tuple[str, str, dict] | None:
        """Returns (mechanism, what, detail) for the first violated invariant or None."""
        from pyoak.legacy.node import AwareASTNode

        U = self.U
        att = [n for n in self.handles if not n.detached]
        ids = {}
        for n in att:
            if n.id in ids and ids[n.id] is not n:
                return ("I3-duplicate-id", "two attached nodes share an id", {"id": n.id})
            ids[n.id] = n
        alias = self.id_aliases()
        for n in att:
            # I1
            for fname, idx, c in struct_children(U, n):
                if c.detached:
                    return ("I1-child-detached", "an attached node has a detached child", {"parent": desc(n), "child": desc(c), "field": fname, "index": idx, "aliased_ids": sorted(alias & {n.id, c.id})})
                if c.parent is not n:
                    return ("I1-child-parent", "a child of an attached node does not report it as parent", {"parent": desc(n), "child": desc(c), "reports": desc(c.parent), "aliased_ids": sorted(alias & {n.id, c.id})})
                if c.parent_field is None or c.parent_field.name != fname or c.parent_index != idx:
                    return ("I1-child-position", "a child reports the wrong field / index", {"parent": desc(n), "child": desc(c), "reports": (c.parent_field.name if c.parent_field else None, c.parent_index), "actual": (fname, idx)})
            # I2
            p = n.parent
            if p is not None:
                pf, pi = n.parent_field, n.parent_index
                ok = False
                if pf is not None and hasattr(p, pf.name):
                    v = getattr(p, pf.name)
                    if pi is None:
                        ok = v is n
                    elif isinstance(v, (tuple, list)) and 0 <= pi < len(v):
                        ok = v[pi] is n
                if not ok:
                    return ("I2-not-stored-in-parent", "an attached node is not stored in its parent at the reported position", {"node": desc(n), "parent": desc(p), "reports": (pf.name if pf else None, pi), "aliased_ids": sorted(alias & {n.id, p.id})})
                if p.detached:
                    return ("I2-parent-detached", "an attached node reports a detached parent", {"node": desc(n), "parent": desc(p)})
            # I3
            if AwareASTNode.get_any(n.id) is not n or type(n).get(n.id) is not n or AwareASTNode.get(n.id, strict=False) is not n:
                return ("I3-lookup", "lookup does not return an attached node under its id", {"node": desc(n)})
        if not deep:
            return None
        # I5 across trees, asked before anything is recalculated: paths calculated at an earlier point of the history (and
        # stale by now) are no evidence of ancestry - the parent links are
        import random as _random

        gparent: dict[int, Any] = {}
        allnodes = []
        for r in [n for n in att if n.parent is None]:
            gparent[id(r)] = None
            for x in struct_subtree(U, r):
                allnodes.append(x)
                for _fn, _ix, c in struct_children(U, x):
                    gparent[id(c)] = x
        prng = _random.Random(len(allnodes) * 31 + len(self.handles))
        with_path = [x for x in allnodes if getattr(x, "xpath", None)]
        for b in prng.sample(with_path, min(8, len(with_path))) + prng.sample(allnodes, min(6, len(allnodes))):
            for a in prng.sample(with_path, min(8, len(with_path))) + prng.sample(allnodes, min(4, len(allnodes))):
                exp = False
                q = gparent.get(id(b))
                while q is not None:
                    if q is a:
                        exp = True
                        break
                    q = gparent.get(id(q))
                self.cross_tree_ancestor_queries += 1
                if a.is_ancestor(b) != exp:
                    return ("I5-is_ancestor", "is_ancestor disagrees with the structure (asked across trees, before paths are recalculated)", {"ancestor": desc(a), "node": desc(b), "exp": exp, "ancestor_xpath": getattr(a, "xpath", None), "node_xpath": getattr(b, "xpath", None)})
        # I4 + I5 per attached root
        for r in [n for n in att if n.parent is None]:
            nodes = struct_subtree(U, r)
            # I4: independently rebuilt detached copy
            try:
                copy_cid = self.rebuild_cids(r)
            except Exception as e:  # noqa: BLE001
                return ("I4-rebuild-failed", f"harness could not rebuild the tree: {type(e).__name__}: {e}", {"root": desc(r)})
            for x in nodes:
                if x.content_id != copy_cid[id(x)]:
                    return ("I4-content-id", "content_id of an attached node differs from an independently built equal tree (change not propagated?)", {"node": desc(x), "root": desc(r), "has": x.content_id, "rebuilt": copy_cid[id(x)]})
            # I5
            parent_of = {id(r): None}
            depth = {id(r): 0}
            pathseg = {id(r): f"/@root[0]{type(r).__name__}"}
            order = [r]
            for x in nodes:
                for fname, idx, c in struct_children(U, x):
                    parent_of[id(c)] = x
                    depth[id(c)] = depth[id(x)] + 1
                    pathseg[id(c)] = pathseg[id(x)] + f"/@{fname}[{idx or 0}]{type(c).__name__}"
            r.calculate_xpath()
            for x in nodes:
                chain = []
                q = parent_of[id(x)]
                while q is not None:
                    chain.append(q)
                    q = parent_of[id(q)]
                got = list(x.ancestors())
                if [id(a) for a in got] != [id(a) for a in chain]:
                    return ("I5-ancestors", "ancestors() disagrees with the structure", {"node": desc(x)})
                if x.get_depth() != depth[id(x)]:
                    return ("I5-depth", "get_depth() disagrees with the structure", {"node": desc(x), "got": x.get_depth(), "exp": depth[id(x)]})
                for a in chain:
                    if x.get_depth(relative_to=a) != depth[id(x)] - depth[id(a)]:
                        return ("I5-depth", "relative get_depth() disagrees with the structure", {"node": desc(x), "relative_to": desc(a)})
                if x.xpath != pathseg[id(x)]:
                    return ("I5-xpath", "calculated xpath disagrees with the structure", {"node": desc(x), "got": x.xpath, "exp": pathseg[id(x)]})
            sample = nodes if len(nodes) <= 8 else nodes[:8]
            for a in sample:
                for b in sample:
                    exp = False
                    q = parent_of[id(b)]
                    while q is not None:
                        if q is a:
                            exp = True
                            break
                        q = parent_of[id(q)]
                    if a.is_ancestor(b) != exp:
                        return ("I5-is_ancestor", "is_ancestor disagrees with the structure", {"ancestor": desc(a), "node": desc(b), "exp": exp})
        return None

    def id_aliases(self) -> set[str]:
        """ids carried by more than one handle object"""
        seen: dict[str, int] = {}
        out = set()
        for n in self.handles:
            if n.id in seen and seen[n.id] != id(n):
                out.add(n.id)
            seen.setdefault(n.id, id(n))
        return out

    def rebuild_cids(self, r) -> dict[int, str]:
        """content_id of every node of r's tree as computed on an independently built detached copy"""
        U = self.U
        out: dict[int, str] = {}

        def rb(x):
            kw = {}
            for f in U.child_fields(type(x).__name__):
                v = getattr(x, f.name)
                if v is None:
                    kw[f.name] = None
                elif isinstance(v, (tuple, list)):
                    kw[f.name] = type(v)(rb(c) for c in v)
                else:
                    kw[f.name] = rb(v)
            for f in U.prop_fields(type(x).__name__):
                if f.init:
                    kw[f.name] = getattr(x, f.name)
            self.rb += 1
            c = type(x)(origin=x.origin, id=f"verif-rebuild-{self.rb}", create_detached=True, **kw)
            out[id(x)] = c.content_id
            return c

        rb(r)
        return out

    # ---- C19 frame
    def frame(self) -> dict:
        from pyoak.legacy.node import AwareASTNode

        snap = {}
        for n in self.handles:
            vals = []
            for f in dataclasses.fields(n):
                if f.name in ("id", "original_id", "content_id"):
                    continue  # recorded separately, by value
                v = getattr(n, f.name)
                isnode = lambda x: hasattr(x, "detached") and hasattr(x, "parent_index")  # noqa: E731
                if isinstance(v, (list, tuple)):
                    vals.append((f.name, type(v).__name__, tuple(("node", id(x)) if isnode(x) else ("val", repr(x)) for x in v)))
                elif isnode(v):
                    vals.append((f.name, "node", id(v)))
                else:
                    # scalar values are compared by value and type (strings may be re-created with equal content)
                    vals.append((f.name, type(v).__name__, repr(v) if not hasattr(v, "fqn") else ("origin", id(v))))
            p = n.parent
            snap[id(n)] = (
                n.detached,
                id(p) if p is not None else None,
                n.parent_field.name if n.parent_field is not None else None,
                n.parent_index,
                tuple(vals),
                n.id,
                n.original_id,
                n.content_id,
            )
        reg = {k: id(v) for k, v in list(AwareASTNode._nodes.items())}
        return {"nodes": snap, "registry": reg}

    def frame_diff(self, before: dict) -> list[dict]:
        after = self.frame()
        names = ["attached_flag", "parent", "parent_field", "parent_index", "field_values", "id", "original_id", "content_id"]
        out = []
        by_id = {id(n): n for n in self.handles}
        for k, b in before["nodes"].items():
            a = after["nodes"].get(k)
            if a is None:
                continue
            ch = [names[i] for i in range(len(names)) if a[i] != b[i]]
            if ch:
                out.append({"node": desc(by_id[k]), "obj": k, "changed": ch, "before": {names[i]: (b[i] if i != 4 else "...") for i in range(len(names)) if a[i] != b[i]}, "after": {names[i]: (a[i] if i != 4 else "...") for i in range(len(names)) if a[i] != b[i]}})
        if after["registry"] != before["registry"]:
            added = sorted(set(after["registry"]) - set(before["registry"]))
            removed = sorted(set(before["registry"]) - set(after["registry"]))
            swapped = sorted(k for k in after["registry"] if k in before["registry"] and after["registry"][k] != before["registry"][k])
            out.append({"node": "<registry>", "changed": ["registry"], "added": added[:5], "removed": removed[:5], "other_object": swapped[:5]})
        return out


def desc(n) -> str:
    if n is None:
        return "None"
    return f"{type(n).__name__}<{n.id[:10]}{'…' if len(n.id) > 10 else ''}|{'det' if n.detached else 'att'}>"
