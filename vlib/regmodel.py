"""Shadow model of pyoak's NODE_REGISTRY and helpers shared by C03 / C10 / C14.

The model never holds a strong reference to a node: it maps id string -> (id(obj), weakref).
Strong references live only in the harness' handle table.
"""
from __future__ import annotations

import gc
import weakref
from typing import Any

from .universe import Universe


def subtree_objects(U: Universe, node: Any) -> list[Any]:
    """All node objects reachable from `node` through the child fields named by the
    class specs (pre-order, each *position*; objects may repeat)."""
    out = []
    stack = [node]
    while stack:
        n = stack.pop()
        out.append(n)
        kids = []
        for f in U.child_fields(type(n).__name__):
            v = getattr(n, f.name)
            if v is None:
                continue
            if isinstance(v, (tuple, list)):  # a list given for a tuple field is accepted while type checks are off
                kids.extend(v)
            else:
                kids.append(v)
        stack.extend(reversed(kids))
    return out


def reachable(U: Universe, handles) -> dict[int, Any]:
    seen: dict[int, Any] = {}
    for h in handles:
        if h is None:
            continue
        for o in subtree_objects(U, h):
            seen.setdefault(id(o), o)
    return seen


def registry_snapshot() -> dict[str, int]:
    from pyoak.node import NODE_REGISTRY

    return {k: id(v) for k, v in list(NODE_REGISTRY.items())}


class RegModel:
    def __init__(self, U: Universe):
        self.U = U
        self.reg: dict[str, tuple[int, weakref.ref]] = {}

    def is_registered(self, o: Any) -> bool:
        e = self.reg.get(o.id)
        return e is not None and e[0] == id(o)

    def register(self, o: Any) -> str | None:
        """Returns an error string if the id is already taken by another live object."""
        e = self.reg.get(o.id)
        err = None
        if e is not None and e[0] != id(o) and e[1]() is not None:
            err = f"id {o.id} given to a new node while another registered node holds it"
        self.reg[o.id] = (id(o), weakref.ref(o))
        return err

    def unregister(self, o: Any) -> bool:
        if self.is_registered(o):
            del self.reg[o.id]
            return True
        return False

    def detach_tree(self, o: Any) -> None:
        for x in subtree_objects(self.U, o):
            self.unregister(x)

    def drop_unreachable(self, handles) -> list[weakref.ref]:
        """Remove every registered object that is no longer reachable from the
        handle table; returns their weakrefs (must be dead after gc)."""
        live = reachable(self.U, handles)
        dead = []
        for k in list(self.reg):
            oid, wr = self.reg[k]
            if oid not in live:
                dead.append(wr)
                del self.reg[k]
        return dead

    def as_idmap(self) -> dict[str, int]:
        return {k: v[0] for k, v in self.reg.items()}

    def compare(self) -> str | None:
        snap = registry_snapshot()
        exp = self.as_idmap()
        if snap == exp:
            return None
        missing = sorted(k for k in exp if k not in snap)
        extra = sorted(k for k in snap if k not in exp)
        wrong = sorted(k for k in exp if k in snap and snap[k] != exp[k])
        return f"registry differs from model: missing(live node not returned)={missing[:4]} extra(returned but should not be)={extra[:4]} wrong_object={wrong[:4]}"


def collect():
    import sys

    # drop exception state that may pin frames/tracebacks
    try:
        sys.exc_clear()  # type: ignore[attr-defined]
    except AttributeError:
        pass
    gc.collect()
