"""XPath ASTs, renderer and reference evaluator (documented semantics), shared by C07, C17, C20.

Step = (anywhere: bool, field: str|None, index: None|'any'|int, cls: str|None)
  anywhere: the step is preceded by '//' (any number of intermediate levels)
Path = list[Step]; the last step always names a class.
"""
from __future__ import annotations

from typing import Any, Callable


def render_step(st, ws: Callable[[], str] = lambda: "") -> str:
    anywhere, field, index, cls = st
    out = ""
    if field is not None:
        out += ws() + "@" + ws() + field
    if index is not None:
        out += ws() + "[" + ws() + ("" if index == "any" else str(index)) + ws() + "]"
    if cls is not None:
        # a class name directly after a field name needs white space between them
        sep = ws() or (" " if (field is not None and index is None) else "")
        out += sep + cls
    return out


def render(path, relative: bool = False, extra_slash: int = -1, ws: Callable[[], str] = lambda: "") -> str:
    """relative=True renders a first step that is 'anywhere' without the leading '//'.
    extra_slash=k inserts one more '/' before step k if that step is anywhere ('///' == '//')."""
    out = ""
    for k, st in enumerate(path):
        if k == 0 and relative and st[0]:
            out += render_step(st, ws).lstrip() if ws() == "" else render_step(st, ws)
            continue
        out += ws() + ("//" if st[0] else "/")
        if st[0] and k == extra_slash:
            out += "/"
        out += render_step(st, ws)
    return out


def ref_eval(path, root_pos, kids_of: Callable[[Any], list], obj_of: Callable[[Any], Any], classes: dict[str, type]):
    """Top-down evaluation on positions with the documented meaning.
    A virtual super-root V has the real root as its only child; the root has no
    field and no index. Returns the list of matching positions (each once)."""
    V = object()

    def children(p):
        return [root_pos] if p is V else kids_of(p)

    def descendants(p):
        out = []
        stack = list(reversed(children(p)))
        while stack:
            q = stack.pop()
            out.append(q)
            stack.extend(reversed(kids_of(q)))
        return out

    def ok(p, st):
        _, field, index, cls = st
        if cls is not None and not isinstance(obj_of(p), classes[cls]):
            return False
        if field is not None and (p is root_pos or p.field != field):
            return False
        if index is not None and index != "any" and (p is root_pos or p.index != index):
            return False
        return True

    cur = [V]
    for st in path:
        nxt = []
        seen = set()
        for p in cur:
            for c in descendants(p) if st[0] else children(p):
                if id(c) not in seen and ok(c, st):
                    seen.add(id(c))
                    nxt.append(c)
        cur = nxt
    return cur


def gen_path(rng, positions, field_names, class_names, obj_cls_of: Callable[[Any], list[str]], max_steps: int = 4):
    """Generate a path. With probability ~0.75 it is derived from a real position of
    the tree (so that matches are common), then perturbed."""
    if positions and rng.random() < 0.75:
        p = rng.choice(positions)
        chain = []
        q = p
        while q is not None:
            chain.append(q)
            q = q.parent
        chain.reverse()  # root first
        k = rng.randint(1, min(max_steps, len(chain)))
        # choose k positions of the chain as steps, always including the target
        idxs = sorted(rng.sample(range(len(chain) - 1), k - 1)) + [len(chain) - 1] if len(chain) > 1 else [0]
        steps = []
        prev = -1
        for n_, i in enumerate(idxs):
            q = chain[i]
            gap = i - prev - 1
            anywhere = gap > 0 or rng.random() < 0.15
            prev = i
            field = q.field if (q.field is not None and rng.random() < 0.6) else None
            index = None
            if q.index is not None and rng.random() < 0.6:
                index = q.index
            elif rng.random() < 0.1:
                index = "any"
            cls = None
            last = n_ == len(idxs) - 1
            if last or rng.random() < 0.7:
                cls = rng.choice(obj_cls_of(q))
            if field is None and index is None and cls is None:
                cls = rng.choice(obj_cls_of(q))
            steps.append((anywhere, field, index, cls))
        # perturbations
        r = rng.random()
        if r < 0.12:
            j = rng.randrange(len(steps))
            a, f, ix, c = steps[j]
            steps[j] = (a, f, rng.choice([0, 1, 2, 9, 10, 11, 12, 13]), c)
        elif r < 0.2:
            j = rng.randrange(len(steps))
            a, f, ix, c = steps[j]
            steps[j] = (a, rng.choice(field_names), ix, c)
        elif r < 0.28:
            j = rng.randrange(len(steps))
            a, f, ix, c = steps[j]
            steps[j] = (not a, f, ix, c)
        elif r < 0.34:
            j = rng.randrange(len(steps))
            a, f, ix, c = steps[j]
            steps[j] = (a, f, ix, rng.choice(class_names))
        return steps
    k = rng.randint(1, max_steps)
    steps = []
    for n_ in range(k):
        last = n_ == k - 1
        anywhere = rng.random() < 0.4
        field = rng.choice(field_names) if rng.random() < 0.4 else None
        index = rng.choice([None, None, None, "any", 0, 1, 2, 10, 12])
        cls = rng.choice(class_names) if (last or rng.random() < 0.6) else None
        if field is None and index is None and cls is None:
            cls = rng.choice(class_names)
        steps.append((anywhere, field, index, cls))
    return steps
