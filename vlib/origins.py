"""Origin specs (plain tuples) -> real origins, and canonical forms of real origins
computed by walking attributes (never by Origin.__eq__).

Origin spec forms:
  ('no',)
  ('code', src, start, end)     CodeOrigin over text source #src, indices start<=end
  ('gen', src)                  GeneratedCodeOrigin
  ('xml', src, xpath)           XMLFileOrigin
  ('multi', (spec, spec, ...))  flat multi origin built with merge_origins (>= 2 members, none 'no'/'multi')
"""
from __future__ import annotations

from typing import Any

TEXTS = [
    "alpha beta\ngamma delta\nepsilon zeta eta theta\n",
    "x = 1\ny = 2\nz = x + y\nprint(z)\n",
    "\U0001F600 café 中文\nline2 \U0001F680\nend",
]
TEXTS += ["select 1 from t where a = 2\n", "select 1 from t where a = 2\n", TEXTS[0]]
N_SOURCES = len(TEXTS)
TEXTS += ["-- file backed\nselect a, b\nfrom t;\n", "<root><a x='1'/></root>\n", ""]  # 8: a text source whose text is empty
N_SOURCES = len(TEXTS)
# 6: TextFileSource over a real file (get_raw reads it lazily); 7: FileSource (raw bytes: code origins have no raw text)
FILE_SOURCES = {6: ("TextFileSource", "text_source_6.sql"), 7: ("FileSource", "binary_source_7.xml")}


TEXTS += ["select v from variants\n", "select v from variants\n"]
N_SOURCES = len(TEXTS)
# 9/10: a user's own Source subclass that overrides fqn: one uri and type, two different sources
VARIANT_SOURCES = {9: "a", 10: "b"}
TEXTS += ["plain source text\nsecond line\n"]
N_SOURCES = len(TEXTS)
# 11: an instance of the plain Source base class (uri and type given by the caller, text in _raw)
PLAIN_SOURCES = {11: ("Source", "plain://verif/11", "document")}
_VARIANT_CLS: list = []


def variant_source_class():
    if not _VARIANT_CLS:
        from dataclasses import dataclass

        from pyoak.origin import TextSource

        @dataclass(frozen=True)
        class VariantSource(TextSource):
            variant: str = ""

            @property
            def fqn(self) -> str:
                return f"{self.source_uri}#{self.variant}"

        _VARIANT_CLS.append(VariantSource)
    return _VARIANT_CLS[0]


_SPAN_CLS: list = []


def span_origin_class():
    """A user's own Origin subclass that can be measured: len() is the length of its span, so an empty span is falsy."""
    if not _SPAN_CLS:
        from dataclasses import dataclass

        from pyoak.origin import CodeOrigin

        @dataclass(frozen=True)
        class SpanOrigin(CodeOrigin):
            def __len__(self) -> int:
                return self.position.end.index - self.position.start.index

        _SPAN_CLS.append(SpanOrigin)
    return _SPAN_CLS[0]


_TOK_CLS: list = []


def tok_position_class():
    """A user's own Position subclass that defines equality of its own and is therefore not hashable."""
    if not _TOK_CLS:
        from dataclasses import dataclass

        from pyoak.origin import Position

        @dataclass(frozen=True, eq=False)
        class TokPos(Position):
            tok: int = 0

            @property
            def fqn(self) -> str:
                return f"tok{self.tok}"

            def __eq__(self, other):
                return isinstance(other, TokPos) and other.tok == self.tok

        _TOK_CLS.append(TokPos)
    return _TOK_CLS[0]


def _source_file(i: int):
    """The file behind a file source: created once per machine under the temp dir (atomic rename), same content every time."""
    import os
    import tempfile
    from pathlib import Path

    d = Path(tempfile.gettempdir()) / f"verif_pyoak_sources_{os.getuid()}"
    d.mkdir(exist_ok=True)
    f = d / FILE_SOURCES[i][1]
    if not f.exists() or f.read_text() != TEXTS[i]:
        tmp = d / f".{os.getpid()}.{FILE_SOURCES[i][1]}"
        tmp.write_text(TEXTS[i])
        os.replace(tmp, f)
    return f


# 0-2: MemoryTextSource, distinct uris; 3/4: TextSource with one uri and different source_type;
# 5: TextSource with the uri and type of source 0 (another class => another source)
SOURCE_DESCR = {
    3: ("TextSource", "queries/report.sql", "sql"),
    4: ("TextSource", "queries/report.sql", "jinja"),
    5: ("TextSource", "mem://verif/0", "<memory>"),
}


def point_for(text: str, idx: int) -> tuple[int, int, int]:
    """(index, line, column) derived from the index."""
    idx = max(0, min(idx, len(text)))
    line = text.count("\n", 0, idx) + 1
    last_nl = text.rfind("\n", 0, idx)
    col = idx - (last_nl + 1)
    return idx, line, col


_SRC_CACHE: dict[int, Any] = {}


def source(i: int) -> Any:
    if i not in _SRC_CACHE:
        _SRC_CACHE[i] = fresh_source(i)
    return _SRC_CACHE[i]


def fresh_source(i: int) -> Any:
    """an equal but distinct source object (same uri / type / text)"""
    from pyoak.origin import MemoryTextSource, TextSource

    if i in SOURCE_DESCR:
        _, uri, typ = SOURCE_DESCR[i]
        return TextSource(uri, typ, _raw=TEXTS[i])
    if i in PLAIN_SOURCES:
        from pyoak.origin import Source

        return Source(PLAIN_SOURCES[i][1], PLAIN_SOURCES[i][2], _raw=TEXTS[i])
    if i in VARIANT_SOURCES:
        return variant_source_class()("variants/x.sql", "sql", _raw=TEXTS[i], variant=VARIANT_SOURCES[i])
    if i in FILE_SOURCES:
        from pyoak.origin import FileSource, TextFileSource

        return (TextFileSource if i == 6 else FileSource)(_source_file(i))
    return MemoryTextSource(TEXTS[i], source_uri=f"mem://verif/{i}")


def build_origin(spec: tuple, src=None) -> Any:
    """src: optional function index -> source object (default: one cached object per index)"""
    global source
    if src is not None:
        saved = source
        source = src
        try:
            return build_origin(spec)
        finally:
            source = saved

    from pyoak.origin import (
        NO_ORIGIN,
        CodeOrigin,
        CodePoint,
        CodeRange,
        GeneratedCodeOrigin,
        XMLFileOrigin,
        XMLPath,
        merge_origins,
    )

    k = spec[0]
    if k == "no":
        return NO_ORIGIN
    if k == "code":
        _, s, a, b = spec
        t = TEXTS[s]
        if (a + b) % 2:
            from pyoak.origin import get_code_range  # the helper spelling of the same range

            return CodeOrigin(source(s), get_code_range(*point_for(t, a), *point_for(t, b)))
        return CodeOrigin(source(s), CodeRange(CodePoint(*point_for(t, a)), CodePoint(*point_for(t, b))))
    if k == "gen":
        return GeneratedCodeOrigin(source(spec[1]))
    if k == "xml":
        if len(spec[2]) % 2:
            from pyoak.origin import get_xml_origin

            return get_xml_origin(source(spec[1]), spec[2])
        return XMLFileOrigin(source(spec[1]), XMLPath(spec[2]))
    if k == "nsxml":
        from pyoak.origin import NO_SOURCE

        return XMLFileOrigin(NO_SOURCE, XMLPath(spec[1]))
    if k == "nscode":
        from pyoak.origin import NO_SOURCE

        return CodeOrigin(NO_SOURCE, CodeRange(CodePoint(spec[1], 1, spec[1]), CodePoint(spec[2], 1, spec[2])))
    if k == "span":
        _, s_, a, b = spec
        t = TEXTS[s_]
        return span_origin_class()(source(s_), CodeRange(CodePoint(*point_for(t, a)), CodePoint(*point_for(t, b))))
    if k == "tok":
        from pyoak.origin import Origin

        return Origin(source(spec[1]), tok_position_class()(spec[2]))
    if k == "nsnp":
        from pyoak.origin import NO_POSITION, NO_SOURCE, Origin

        return Origin(NO_SOURCE, NO_POSITION)  # not the NoOrigin singleton: an origin object of the base class
    if k == "posset":
        from pyoak.origin import Origin, PositionSet

        return Origin(source(spec[1]), PositionSet(tuple(CodeRange(CodePoint(a, 1, a), CodePoint(b, 1, b)) for a, b in spec[2:])))
    if k == "whole":
        from pyoak.origin import EntireSourcePosition, Origin

        return Origin(source(spec[1]), EntireSourcePosition())  # the plain Origin class with the field-less position
    if k == "multi":
        return merge_origins(*[build_origin(m) for m in spec[1]])
    raise ValueError(spec)


def gen_origin(rng, allow_multi: bool = True, p_no: float = 0.4) -> tuple:
    r = rng.random()
    if r < p_no:
        return ("no",)
    r = rng.random()
    if r < 0.55:
        s = rng.randrange(N_SOURCES)
        n = len(TEXTS[s])
        a = rng.randrange(0, min(n, 12)) if n else 0
        b = rng.randrange(a, min(n, a + 8) + 1)
        return ("code", s, a, min(b, n))
    if r < 0.57:
        # the NoSource singleton with a real position; a real origin object made of both placeholders; a plain origin whose
        # position is a set of positions (the same members in one order or the other: two different origins)
        s_ = rng.randrange(N_SOURCES)
        if rng.random() < 0.2:
            return ("tok", s_, rng.randrange(3))  # a position of a user's own class that is not hashable
        if rng.random() < 0.4:
            # an origin of a user's own (measurable) class: empty spans are falsy
            a_ = rng.randrange(0, 4)
            return ("span", s_, min(a_, len(TEXTS[s_])), min(a_ + rng.choice([0, 0, 2]), len(TEXTS[s_])))
        return rng.choice([("nsxml", "/a/b"), ("nsxml", "/c"), ("nscode", 1, 4), ("nscode", 0, 0), ("nsnp",), ("posset", s_, (0, 2), (3, 5)), ("posset", s_, (3, 5), (0, 2)), ("posset", s_, (0, 2), (0, 2), (3, 5))])
    if r < 0.6:
        return ("whole", rng.randrange(N_SOURCES))
    if r < 0.7:
        return ("gen", rng.randrange(N_SOURCES))
    if r < 0.85 or not allow_multi:
        return ("xml", rng.randrange(N_SOURCES), rng.choice(["/a/b", "/a/b[2]", "//c/@x", "/"]))
    k = rng.randint(2, 3)
    members = []
    while len(members) < k:
        m = gen_origin(rng, allow_multi=False, p_no=0.0)
        if m[0] in ("nsnp", "posset", "span", "tok"):
            continue  # (kept out of multi origins: members are ordinary single-position origins)
        members.append(m)
    if rng.random() < 0.4:
        # all members in one source (the multi-origin then has that source, not a source set)
        s = rng.randrange(N_SOURCES)
        members = [(m[0], s) + tuple(m[2:]) if m[0] in ("code", "gen", "xml", "whole") else m for m in members]
        # touching code ranges of one source would be merged by +; merge_origins (used to build) keeps them apart
    return ("multi", tuple(members))


def canon_spec(spec: tuple) -> tuple:
    """Canonical form of an origin *spec* comparable with canon_real(build_origin(spec))."""
    k = spec[0]
    if k == "no":
        return ("NoOrigin",)
    if k == "code":
        _, s, a, b = spec
        t = TEXTS[s]
        return ("CodeOrigin", _canon_src_idx(s), ("CodeRange", point_for(t, a), point_for(t, b)))
    if k == "gen":
        return ("GeneratedCodeOrigin", _canon_src_idx(spec[1]), ("CodeRange", (0, 1, 0), (0, 1, 0)))
    if k == "xml":
        return ("XMLFileOrigin", _canon_src_idx(spec[1]), ("XMLPath", spec[2]))
    if k == "nsxml":
        return ("XMLFileOrigin", ("NoSource",), ("XMLPath", spec[1]))
    if k == "nscode":
        return ("CodeOrigin", ("NoSource",), ("CodeRange", (spec[1], 1, spec[1]), (spec[2], 1, spec[2])))
    if k == "span":
        _, s_, a, b = spec
        t = TEXTS[s_]
        return ("SpanOrigin", _canon_src_idx(s_), ("CodeRange", point_for(t, a), point_for(t, b)))
    if k == "tok":
        return ("Origin", _canon_src_idx(spec[1]), ("TokPos", spec[2]))
    if k == "nsnp":
        return ("Origin", ("NoSource",), ("NoPosition",))
    if k == "posset":
        return ("Origin", _canon_src_idx(spec[1]), ("PositionSet", tuple(("CodeRange", (a, 1, a), (b, 1, b)) for a, b in spec[2:])))
    if k == "whole":
        return ("Origin", _canon_src_idx(spec[1]), ("EntireSourcePosition",))
    if k == "multi":
        return ("MultiOrigin", tuple(canon_spec(m) for m in spec[1]))
    raise ValueError(spec)


def _canon_src_idx(i: int) -> tuple:
    if i in SOURCE_DESCR:
        return SOURCE_DESCR[i]
    if i in FILE_SOURCES:
        return (FILE_SOURCES[i][0], _source_file(i).as_posix(), "File")
    if i in VARIANT_SOURCES:
        return ("VariantSource", "variants/x.sql", "sql", VARIANT_SOURCES[i])
    if i in PLAIN_SOURCES:
        return PLAIN_SOURCES[i]
    return ("MemoryTextSource", f"mem://verif/{i}", "<memory>")


def canon_source(s: Any) -> tuple:
    tn = type(s).__name__
    if tn == "NoSource":
        return ("NoSource",)
    if tn == "SourceSet":
        return ("SourceSet", tuple(canon_source(x) for x in s.sources))
    # the raw text is not part of a source's identity (compare=False) and is not serialized
    if tn == "VariantSource":
        return (tn, s.source_uri, s.source_type, s.variant)
    return (tn, s.source_uri, s.source_type)


def canon_position(p: Any) -> tuple:
    tn = type(p).__name__
    if tn == "NoPosition":
        return ("NoPosition",)
    if tn == "CodeRange":
        return (
            "CodeRange",
            (p.start.index, p.start.line, p.start.column),
            (p.end.index, p.end.line, p.end.column),
        )
    if tn == "XMLPath":
        return ("XMLPath", p.xpath)
    if tn == "PositionSet":
        return ("PositionSet", tuple(canon_position(x) for x in p.positions))
    if tn == "EntireSourcePosition":
        return ("EntireSourcePosition",)
    if tn == "TokPos":
        return ("TokPos", p.tok)
    return (tn, repr(p))


def canon_real(o: Any) -> tuple:
    """Canonical form of a real origin object (attribute walk)."""
    tn = type(o).__name__
    if tn == "NoOrigin":
        return ("NoOrigin",)
    if tn == "MultiOrigin":
        return ("MultiOrigin", tuple(canon_real(m) for m in o.origins))
    return (tn, canon_source(o.source), canon_position(o.position))


def canon_real_full(o: Any) -> tuple:
    """Like canon_real, but for multi origins also records the inferred source and
    position and the container type of `origins`."""
    tn = type(o).__name__
    if tn == "MultiOrigin":
        return (
            "MultiOrigin",
            type(o.origins).__name__,
            tuple(canon_real_full(m) for m in o.origins),
            canon_source(o.source),
            canon_position(o.position),
        )
    return canon_real(o)


def raw_slice(s: int, a: int, b: int):
    """what CodeOrigin.get_raw() must return: the exact slice of the source *text*; a source without text has none"""
    if FILE_SOURCES.get(s, ("",))[0] == "FileSource":
        return None
    return TEXTS[s][a:b]
