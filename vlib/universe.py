"""Node-class universes described by plain data (ClassSpec/FieldSpec), rendered to
source text and exec-ed in a synthetic module.

Everything an oracle needs to know about a class (field order, which fields are
children, their shapes, compare/init flags, MRO) comes from these specs, never
from pyoak's own introspection (which is part of what is being checked).
"""
from __future__ import annotations

import sys
import types
from dataclasses import dataclass, field as dc_field
from typing import Any, Optional


# instance attributes of universe classes that are not fields (suffix of the class name -> attribute names)
EXTRA_ATTRS = {"Arity": ("arity", "first_arg", "arg_vs")}


@dataclass
class FS:
    """Field spec."""

    name: str
    role: str  # 'prop' | 'child'
    ann: str  # annotation source text
    shape: str = ""  # child: one|opt|tuple|fixedN ; prop: value kind name
    types: tuple[str, ...] = ()  # child: allowed class names (subclasses allowed)
    compare: bool = True
    init: bool = True
    kw_only: bool = False
    default: Optional[str] = None  # source text of default, None = required
    factory: Optional[str] = None  # source text of a default_factory (value differs per instance)
    raw: Optional[str] = None  # the complete right-hand side of the field (e.g. a field(...) call with metadata), verbatim
    hash_: Optional[bool] = None  # explicit field(hash=...) (never part of pyoak's notion of comparable)
    repr_: bool = True

    def render(self) -> str:
        if self.raw is not None:
            return f"    {self.name}: {self.ann} = {self.raw}"
        opts = []
        if self.factory is not None:
            opts.append(f"default_factory={self.factory}")
        elif self.default is not None:
            opts.append(f"default={self.default}")
        if not self.compare:
            opts.append("compare=False")
        if not self.init:
            opts.append("init=False")
        if self.kw_only:
            opts.append("kw_only=True")
        if self.hash_ is not None:
            opts.append(f"hash={self.hash_}")
        if not self.repr_:
            opts.append("repr=False")
        if not opts:
            return f"    {self.name}: {self.ann}"
        if opts == [f"default={self.default}"]:
            return f"    {self.name}: {self.ann} = {self.default}"
        return f"    {self.name}: {self.ann} = field({', '.join(opts)})"


@dataclass
class CS:
    """Class spec."""

    name: str
    bases: tuple[str, ...]  # names inside the universe, or 'ASTNode'
    fields: list[FS] = dc_field(default_factory=list)
    slots: bool = False
    body: str = ""  # extra methods, already indented by 4
    abstract: bool = False  # never instantiated by generators
    local: bool = False  # defined inside a function (so __qualname__ != __name__); honoured by the legacy universe


BASE_FIELDS = [
    FS("id", "prop", "str", "id", compare=False, init=False),
    FS("content_id", "prop", "str", "id", compare=False, init=False),
    FS("origin", "prop", "Origin", "origin", kw_only=True),
]

PRELUDE_PLAIN = """\
import enum
from dataclasses import dataclass, field
from pathlib import Path
from typing import Annotated, Any, ClassVar, Literal, Optional, Union, Tuple, NewType, Sequence, Mapping, FrozenSet, List, Dict, Set
from abc import ABC
from decimal import Decimal
from pyoak.node import ASTNode
from pyoak.origin import CodeOrigin, NO_ORIGIN
from pyoak.origin import Origin
"""


class Universe:
    """A set of node classes, exec-ed from specs."""

    def __init__(
        self,
        name: str,
        specs: list[CS],
        *,
        postponed: bool = False,
        prelude_extra: str = "",
        root_base: str = "ASTNode",
        prelude: str | None = None,
        frozen: bool = True,
    ) -> None:
        self.name = name
        self.specs = {s.name: s for s in specs}
        self.order = [s.name for s in specs]
        self.postponed = postponed
        self.root_base = root_base
        src = ""
        if postponed:
            src += "from __future__ import annotations\n"
        src += PRELUDE_PLAIN if prelude is None else prelude
        src += prelude_extra + "\n"
        self.frozen = frozen
        import os as _os

        # "early introspection" configuration: a schema registry that asks every class for its property / child fields
        # right after the class statement - while classes named in its (postponed / quoted) annotations may not exist yet;
        # a call that cannot answer yet raises and must leave no trace
        self.early_introspection = _os.environ.get("VERIF_EARLY_INTROSPECT") == "1"
        if self.early_introspection:
            src += "\ndef _verif_early(cls):\n    for m in ('get_property_fields', 'get_child_fields'):\n        try:\n            list(getattr(cls, m)())\n        except Exception:\n            pass\n\n"
        for s in specs:
            src += self.render_class(s, frozen) + "\n"
            if self.early_introspection:
                src += f"_verif_early({s.name})\n\n"
        self.source = src
        self.module = types.ModuleType(name)
        self.module.__dict__["__name__"] = name
        sys.modules[name] = self.module
        self.cls: dict[str, type] = {}

    def exec(self) -> "Universe":
        # dont_inherit: this module's own `from __future__ import annotations` must not leak into the
        # universe (plain annotations unless the universe asks for postponed ones in its source)
        code = compile(self.source, f"<universe {self.name}>", "exec", dont_inherit=True)
        exec(code, self.module.__dict__)
        for n in self.order:
            self.cls[n] = self.module.__dict__[n]
        return self

    def borrow(self, other: "Universe") -> "Universe":
        """Use the classes of an already exec-ed universe that declares the same
        classes (possibly with another field order): this object then supplies
        *its own* field-order knowledge with the other's real classes."""
        self.cls = other.cls
        self.module = other.module
        sys.modules[other.name] = other.module
        return self

    @staticmethod
    def render_class(s: CS, frozen: bool = True) -> str:
        args = (["frozen=True"] if frozen else []) + (["slots=True"] if s.slots else [])
        deco = "@dataclass" + (f"({', '.join(args)})" if args else "")
        out = f"{deco}\nclass {s.name}({', '.join(s.bases)}):\n"
        lines = [f.render() for f in s.fields]
        if s.body:
            lines.append(s.body.rstrip("\n"))
        if not lines:
            lines = ["    pass"]
        src = out + "\n".join(lines) + "\n"
        if s.local:
            # defined inside a function: __qualname__ differs from __name__; the name is bound at module level afterwards
            src = f"def _make_{s.name}():\n" + "".join(("    " + ln if ln else ln) + "\n" for ln in src.splitlines()) + f"    return {s.name}\n\n\n{s.name} = _make_{s.name}()\n"
        return src

    # ---- knowledge derived from the specs only ----
    def mro(self, name: str) -> list[str]:
        """Ancestor list inside the universe. Single inheritance is linearised from
        the specs; for multiple inheritance CPython's own C3 result is used once
        the classes exist (CPython is in the trust base, pyoak is not consulted)."""
        if name in self.cls:
            return [c.__name__ for c in self.cls[name].__mro__ if c.__name__ in self.specs]
        out = [name]
        cur = self.specs[name]
        while True:
            nxt = [b for b in cur.bases if b in self.specs]
            if not nxt:
                break
            assert len(nxt) == 1, "multiple inheritance needs exec() first"
            out.append(nxt[0])
            cur = self.specs[nxt[0]]
        return out

    def is_sub(self, name: str, base: str) -> bool:
        return base == self.root_base or base in self.mro(name)

    def all_fields(self, name: str) -> list[FS]:
        """Dataclass field order: base classes first (root first), a redefined
        field keeps its original position but takes the new definition."""
        chain = list(reversed(self.mro(name)))
        order: list[str] = []
        defs: dict[str, FS] = {}
        for f in BASE_FIELDS:
            order.append(f.name)
            defs[f.name] = f
        for cn in chain:
            for f in self.specs[cn].fields:
                if f.name not in defs:
                    order.append(f.name)
                defs[f.name] = f
        return [defs[n] for n in order]

    def child_fields(self, name: str) -> list[FS]:
        return [f for f in self.all_fields(name) if f.role == "child"]

    def prop_fields(self, name: str, user_only: bool = True) -> list[FS]:
        fs = [f for f in self.all_fields(name) if f.role == "prop"]
        if user_only:
            fs = [f for f in fs if f.name not in ("id", "content_id", "origin")]
        return fs

    def concrete(self) -> list[str]:
        return [n for n in self.order if not self.specs[n].abstract]

    def concrete_subs(self, bases: tuple[str, ...]) -> list[str]:
        return [n for n in self.concrete() if any(self.is_sub(n, b) for b in bases)]


# ---------------------------------------------------------------------------
# The core universe: every field shape the properties mention
# ---------------------------------------------------------------------------

CORE_PRELUDE = """
import itertools as _itertools
_{P}serial = _itertools.count(1)

class {P}Color(enum.Enum):
    RED = 1
    GREEN = "g"
    BLUE = 3


class {P}Op(str, enum.Enum):
    # a str subclass whose str() is not its payload ('UOp.ADD' vs '+')
    ADD = "+"
    SUB = "-"


class {P}Flags(enum.IntFlag):
    # flag words may carry undeclared bits (their members have no name)
    READ = 1
    WRITE = 2


@dataclass(frozen=True)
class {P}IntT:
    pass


@dataclass(frozen=True)
class {P}StrT:
    pass


@dataclass(frozen=True)
class {P}ListOf:
    # value objects (not nodes) that nest: the classes of inner members are part of the value
    elem: Any = None


@dataclass(frozen=True)
class {P}Qty:
    # a value whose __format__ (bare number) says less than its str() (number and unit)
    n: float = 0.0
    unit: str = ""

    def __str__(self):
        return f"{self.n} {self.unit}"

    def __format__(self, spec):
        return format(self.n, spec)


class {P}Symbol:
    # an opaque handle with identity equality (no __eq__): two handles are equal only if they are one object
    def __init__(self, name):
        self.name = name

    def __str__(self):
        return f"sym:{self.name}"


{P}SYMBOLS = [{P}Symbol(f"s{i}") for i in range(4)]

from pyoak.origin import GeneratedCodeOrigin as _GCO, MemoryTextSource as _MTS
# the origin that nodes of "built-in" classes get when none is given
{P}PRELUDE_ORIGIN = _GCO(_MTS("def builtins(): ...", source_uri="mem://verif/prelude"))


class _{P}Tag:
    # a plain marker mixin (no data, not a node)
    __slots__ = ()

    def mixin_marker(self):
        return type(self).__name__
"""


def core_specs(P: str = "U", variant: int = 0) -> list[CS]:
    """variant=1 declares the same classes with their own fields in reversed
    order (used for the 'declaration order never influences content_id' leg; the
    two variants live in different processes)."""
    E = f"{P}Expr"

    def F(*fs: FS) -> list[FS]:
        fl = list(fs)
        if variant == 1:
            # reverse, but keep dataclass ordering legal: required first
            req = [f for f in fl if f.default is None and not f.kw_only and f.init]
            rest = [f for f in fl if not (f.default is None and not f.kw_only and f.init)]
            fl = list(reversed(req)) + list(reversed(rest))
        return fl

    specs = [
        CS(E, ("ASTNode",), [], abstract=True),
        CS(f"{P}Leaf", (E,), F(FS("v", "prop", "int", "int", default="0"), FS("s", "prop", "str", "str", default='""'))),
        CS(f"{P}Leaf2", (E,), F(FS("v", "prop", "int", "int", default="0"), FS("s", "prop", "str", "str", default='""'))),
        CS(f"{P}Name", (f"{P}Leaf",), F(FS("tag", "prop", "str | None", "ostr", default="None"))),
        CS(
            f"{P}Falsy",
            (E,),
            F(FS("v", "prop", "int", "int", default="0")),
            body="    def __len__(self):\n        return 0\n",
        ),
        CS(
            f"{P}FalsyB",
            (E,),
            F(FS("v", "prop", "int", "int", default="0"), FS("c", "child", f"{E} | None", "opt", (E,), default="None")),
            body="    def __bool__(self):\n        return False\n",
        ),
        CS(f"{P}Un", (E,), F(FS("child", "child", E, "one", (E,)), FS("op", "prop", "str", "str", default='"-"'))),
        CS(
            f"{P}Bin",
            (E,),
            F(
                FS("left", "child", E, "one", (E,)),
                FS("right", "child", f"Optional[{E}]", "opt", (E,), default="None"),
                FS("op", "prop", "str", "str", default='"+"'),
            ),
        ),
        CS(
            f"{P}Over",
            (f"{P}Bin",),
            F(
                FS("op", "prop", "str", "str", default='"*"'),
                FS("extra", "child", f"{E} | None", "opt", (E,), default="None"),
            ),
        ),
        CS(
            f"{P}List",
            (E,),
            F(
                FS("items", "child", f"tuple[{E}, ...]", "tuple", (E,), default="()"),
                FS("root", "child", f"Union[{P}Leaf, {P}Falsy, None]", "opt", (f"{P}Leaf", f"{P}Falsy"), default="None"),
                FS("label", "prop", "str", "str", default='""'),
            ),
        ),
        CS(f"{P}Pair", (E,), F(FS("pair", "child", f"tuple[{E}, {E}]", "fixed2", (E,)))),
        CS(
            f"{P}Mix",
            (E,),
            F(
                FS("b", "prop", "bool", "bool", default="False"),
                FS("f", "prop", "float", "float", default="0.0"),
                FS("n", "prop", "None", "none", default="None"),
                FS("e", "prop", f"{P}Color", "enum", default=f"{P}Color.RED"),
                FS("p", "prop", "Path", "path", default='Path("a/b")'),
                FS("lit", "prop", 'Literal["a", "b", 1]', "lit", default='"a"'),
                FS("ti", "prop", "tuple[int, ...]", "tint", default="()"),
                FS("ts", "prop", "Tuple[str, ...]", "tstr", default="()"),
                FS("os", "prop", "Optional[str]", "ostr", default="None"),
                FS("fs", "prop", "frozenset[int]", "fset", default="frozenset()"),
                FS("nc", "prop", "str", "str", compare=False, default='""', hash_=True),
                FS("hf", "prop", "int", "int", default="0", hash_=False),
                FS("ni", "prop", "int", "int", init=False, default="7"),
                FS("nci", "prop", "int", "int", init=False, compare=False, default="9"),
                FS("nit", "prop", "tuple[int, ...]", "tint", init=False, default="(1, 2)"),
                FS("nip", "prop", "Path", "path", init=False, compare=False, default='Path("n/i")'),
                FS("kw", "prop", "int", "int", kw_only=True, default="0"),
                FS("id_", "child", f"{E} | None", "opt", (E,), default="None"),
                FS("kids", "child", f"tuple[{P}Leaf | {P}Un, ...]", "tuple", (f"{P}Leaf", f"{P}Un"), default="()"),
            ),
        ),
        CS(
            f"{P}Slot",
            (E,),
            F(FS("v", "prop", "int", "int", default="0"), FS("child", "child", f"{E} | None", "opt", (E,), default="None")),
            slots=True,
        ),
        # fully slotted instances (every class up to ASTNode is slotted: no instance __dict__), and a slotted subclass of one
        CS(f"{P}Slotted", ("ASTNode",), F(FS("v", "prop", "int", "int", default="0"), FS("kid", "child", f"{E} | None", "opt", (E,), default="None"), FS("rest", "child", f"tuple[{E}, ...]", "tuple", (E,), default="()")), slots=True),
        CS(f"{P}Slotted2", (f"{P}Slotted",), F(FS("w", "prop", "str", "str", default='""'), FS("more", "child", f"{P}Slotted | None", "opt", (f"{P}Slotted",), default="None")), slots=True),
        CS(
            f"{P}Init",
            (E,),
            F(
                FS("aa", "prop", "str", "str", default='""'),
                FS("ab", "prop", "str", "str", default='""'),
                FS("ca", "child", f"{E} | None", "opt", (E,), default="None"),
                FS("cb", "child", f"{E} | None", "opt", (E,), default="None"),
            ),
        ),
        CS(
            f"{P}Call",
            (E,),
            F(
                FS("args", "child", f"tuple[{E}, ...]", "tuple", (E,), default="()"),
                FS("fn", "child", f"{E} | None", "opt", (E,), default="None"),
                FS("kwargs", "child", f"Tuple[{E}, ...]", "tuple", (E,), default="()"),
            ),
        ),
        CS(
            f"{P}Ser",
            (E,),
            F(
                FS("v", "prop", "int", "int", default="0"),
                # differs per instance, is neither comparable nor an init argument: must never reach the content digest
                FS("serial", "prop", "int", "int", compare=False, init=False, factory=f"lambda: next(_{P}serial)"),
            ),
        ),
        CS(
            f"{P}Picky",
            (E,),
            F(FS("v", "prop", "int", "int", default="0"), FS("note", "prop", "str", "str", compare=False, default='""')),
            body='    def __post_init__(self):\n        super().__post_init__()\n        if self.note == "boom":\n            raise ValueError("picky node refuses this note")\n',
        ),
        CS(
            f"{P}Ann",
            (E,),
            F(
                FS("target", "child", f"{E} | None", "opt", (E,), default="None"),
                FS("aside", "child", f"{E} | None", "opt", (E,), compare=False, default="None", repr_=False),
                FS("extras", "child", f"tuple[{E}, ...]", "tuple", (E,), compare=False, default="()"),
            ),
        ),
        # a node class that behaves like a collection of its elements (len / iter / in), and a class holding one as a single child
        CS(
            f"{P}Coll",
            (E,),
            F(FS("elems", "child", f"tuple[{E}, ...]", "tuple", (E,), default="()")),
            body="    def __len__(self):\n        return len(self.elems)\n\n    def __iter__(self):\n        return iter(self.elems)\n\n    def __contains__(self, x):\n        return any(x is e for e in self.elems)\n",
        ),
        CS(f"{P}Hold", (E,), F(FS("blk", "child", f"{P}Coll", "one", (f"{P}Coll",)), FS("alt", "child", f"{P}Coll | None", "opt", (f"{P}Coll",), default="None"))),
        # a property with mashumaro field metadata (a lossy wire form): the value itself is what counts for content
        CS(f"{P}Meta", (E,), F(FS("amount", "prop", "Decimal", "decimal", default='Decimal("0")', raw='field(default=Decimal("0"), metadata={"serialize": lambda d: f"{d:.2f}", "deserialize": Decimal})'), FS("kid", "child", f"{E} | None", "opt", (E,), default="None"))),
        # a property holding nested value objects (dataclasses that are not nodes)
        CS(f"{P}Typed", (E,), F(FS("ty", "prop", "Any", "valueobj", default="None"), FS("kid", "child", f"{E} | None", "opt", (E,), default="None"))),
        # a model with a child field that is itself called 'children' (it shadows the library's convenience property)
        CS(f"{P}Elem", (E,), F(FS("tag", "prop", "str", "str", default='""'), FS("attrs", "child", f"tuple[{E}, ...]", "tuple", (E,), default="()"), FS("children", "child", f"tuple[{E}, ...]", "tuple", (E,), default="()"), FS("tail", "child", f"{E} | None", "opt", (E,), default="None"))),
        # an abstract base node class (abc.ABC: another metaclass) and a concrete subclass
        CS(f"{P}Abstract", (E, "ABC"), F(FS("label", "prop", "str", "str", default='""')), abstract=True),
        CS(f"{P}Concrete", (f"{P}Abstract",), F(FS("kid", "child", f"{P}Abstract | {E} | None", "opt", (E,), default="None"))),
        # a collection-like node class below the abstract base (its metaclass is ABCMeta, not type), held as a single child
        CS(
            f"{P}AbcColl",
            (f"{P}Abstract",),
            F(FS("elems", "child", f"tuple[{E}, ...]", "tuple", (E,), default="()")),
            body="    def __len__(self):\n        return len(self.elems)\n\n    def __iter__(self):\n        return iter(self.elems)\n\n    def __contains__(self, x):\n        return any(x is e for e in self.elems)\n",
        ),
        CS(f"{P}AbcHold", (E,), F(FS("blk", "child", f"{P}AbcColl", "one", (f"{P}AbcColl",)), FS("v", "prop", "int", "int", default="0"))),
        # typing.Annotated around child and property annotations (also around a quoted reference)
        CS(
            f"{P}Annot",
            (E,),
            F(
                FS("a", "child", f'Annotated["{E} | None", "doc"]', "opt", (E,), default="None"),
                FS("b", "child", f'Annotated[tuple[{E}, ...], "doc"]', "tuple", (E,), default="()"),
                FS("c", "prop", 'Annotated[int, "doc"]', "int", default="0"),
                FS("d", "child", f'Annotated[Optional["{E}"], "doc", 5]', "opt", (E,), default="None"),
            ),
        ),
        # properties derived in __post_init__ (init=False): from the children, and from a non-comparable property
        CS(
            f"{P}Count",
            (E,),
            F(
                FS("items", "child", f"tuple[{E}, ...]", "tuple", (E,), default="()"),
                FS("doc", "prop", "str", "str", compare=False, default='""'),
                FS("n", "prop", "int", "derived", init=False, default="0"),
                FS("has_doc", "prop", "bool", "derived", init=False, compare=False, default="False"),
            ),
            body="    def __post_init__(self):\n        object.__setattr__(self, 'n', len(self.items))\n        object.__setattr__(self, 'has_doc', bool(self.doc))\n        super().__post_init__()\n",
        ),
        # instance attributes that are neither dataclass fields nor class attributes (set in __post_init__, before and after
        # the base class's): plain attributes of the object, EXTRA_ATTRS names them
        CS(
            f"{P}Arity",
            (E,),
            F(FS("args", "child", f"tuple[{E}, ...]", "tuple", (E,), default="()"), FS("v", "prop", "int", "int", default="0")),
            body="    def __post_init__(self):\n        object.__setattr__(self, 'arity', len(self.args))\n        super().__post_init__()\n        object.__setattr__(self, 'first_arg', self.args[0] if self.args else None)\n        object.__setattr__(self, 'arg_vs', tuple(getattr(a, 'v', None) for a in self.args))\n",
        ),
        # nested tuple values (where the nesting opens and closes is part of the value)
        CS(f"{P}Nested", (E,), F(FS("tt", "prop", "tuple[Any, ...]", "nested", default="()"), FS("kid", "child", f"{E} | None", "opt", (E,), default="None"))),
        # field names that are also names of parameters / locals inside the library
        CS(f"{P}Attr", (E,), F(FS("node", "child", f"{E} | None", "opt", (E,), default="None"), FS("changes", "child", f"tuple[{E}, ...]", "tuple", (E,), default="()"), FS("visitor", "prop", "str", "str", default='""'), FS("cls", "prop", "int", "int", default="0"))),
        # field names that differ only in case (properties and children)
        CS(f"{P}CaseTwin", (E,), F(FS("x", "prop", "int", "int", default="0"), FS("X", "prop", "int", "int", default="0"), FS("n", "child", f"{E} | None", "opt", (E,), default="None"), FS("N", "child", f"{E} | None", "opt", (E,), default="None"))),
        # an IntFlag-valued property
        CS(f"{P}FlagNode", (E,), F(FS("fl", "prop", f"{P}Flags", "flags", default=f"{P}Flags(0)"), FS("kid", "child", f"{E} | None", "opt", (E,), default="None"))),
        # defaults that are not interpreter-wide singletons (a big int, a longer string, a non-empty tuple, a Path)
        CS(f"{P}Defaults", (E,), F(FS("big", "prop", "int", "int", default="4096"), FS("name", "prop", "str", "str", default='"function-local"'), FS("dims", "prop", "tuple[int, ...]", "tint", default="(4, 4)"), FS("where", "prop", "Path", "path", default='Path("a/b")'))),
        # a class that re-declares the built-in origin field with another annotation
        CS(f"{P}Narrow", (E,), F(FS("origin", "prop", "Union[CodeOrigin, Origin]", "origin", kw_only=True, default="NO_ORIGIN"), FS("v", "prop", "int", "int", default="0"), FS("kid", "child", f"{E} | None", "opt", (E,), default="None"))),
        # a class that overrides the default of the built-in origin field (nodes of "built-in" things): an explicit
        # NO_ORIGIN on such a node is a value like any other
        CS(f"{P}Builtin", (E,), F(FS("origin", "prop", "Origin", "origin", kw_only=True, default=f"{P}PRELUDE_ORIGIN"), FS("v", "prop", "int", "int", default="0"), FS("kid", "child", f"{E} | None", "opt", (E,), default="None"))),
        # two classes whose (long) names share their first 16 characters and whose layout is the same
        CS(f"{P}VeryLongClassNameAlpha", (E,), F(FS("v", "prop", "int", "int", default="0"), FS("kid", "child", f"{E} | None", "opt", (E,), default="None"))),
        CS(f"{P}VeryLongClassNameBeta", (E,), F(FS("v", "prop", "int", "int", default="0"), FS("kid", "child", f"{E} | None", "opt", (E,), default="None"))),
        # a property whose value is a str subclass with its own str()
        CS(f"{P}OpNode", (E,), F(FS("sop", "prop", f"{P}Op", "senum", default=f"{P}Op.ADD"), FS("kid", "child", f"{E} | None", "opt", (E,), default="None"))),
        # string (forward-reference) annotations mixed with direct ones, the string ones declared first / in between
        CS(
            f"{P}StrMix",
            (E,),
            F(
                FS("first", "child", repr(f"{E} | None"), "opt", (E,), default="None"),
                FS("second", "child", f"{E} | None", "opt", (E,), default="None"),
                FS("third", "child", repr(f"tuple[{E}, ...]"), "tuple", (E,), default="()"),
                FS("fourth", "child", f"tuple[{E}, ...]", "tuple", (E,), default="()"),
                FS("pa", "prop", repr("int"), "int", default="0"),
                FS("pb", "prop", "str", "str", default='""'),
            ),
        ),
        # child fields whose names are the usual names of loop variables / locals in generated or hand-written code
        CS(f"{P}ShortNames", (E,), F(FS("xs", "child", f"tuple[{E}, ...]", "tuple", (E,), default="()"), FS("o", "child", f"{E} | None", "opt", (E,), default="None"), FS("i", "child", f"{E} | None", "opt", (E,), default="None"), FS("f", "child", f"{E} | None", "opt", (E,), default="None"), FS("c", "child", f"tuple[{E}, ...]", "tuple", (E,), default="()"), FS("n", "child", f"{E} | None", "opt", (E,), default="None"))),
        # a node class that writes an __eq__ of its own in its body (the library's notion of equality still applies to nodes)
        CS(f"{P}OwnEq", (E,), F(FS("v", "prop", "int", "int", default="0"), FS("kid", "child", f"{E} | None", "opt", (E,), default="None")), body="    def __eq__(self, other):\n        return NotImplemented\n"),
        # an optional child spelled None-first (the only spelling under which its class is ever named)
        CS(f"{P}NoneFirstTarget", (E,), F(FS("v", "prop", "int", "int", default="0"))),
        CS(f"{P}NoneFirst", (E,), F(FS("kid", "child", f"None | {P}NoneFirstTarget", "opt", (f"{P}NoneFirstTarget",), default="None"), FS("v", "prop", "int", "int", default="0"))),
        # a real forward reference: the class named in the (quoted) annotations is defined further down
        CS(
            f"{P}Fwd",
            (E,),
            F(
                FS("target", "prop", "str", "str", default='""'),
                FS("value", "child", repr(f"{P}FwdLate | None"), "opt", (f"{P}FwdLate",), default="None"),
                FS("extra", "child", repr(f"tuple[{P}FwdLate, ...]"), "tuple", (f"{P}FwdLate",), default="()"),
            ),
        ),
        CS(f"{P}FwdLate", (E,), F(FS("text", "prop", "str", "str", default='""'), FS("back", "child", f"{P}Fwd | None", "opt", (f"{P}Fwd",), default="None"))),
        # same property names in the same order, another compare flag
        CS(f"{P}CmpA", (E,), F(FS("v", "prop", "int", "int", default="0"), FS("note", "prop", "str", "str", default='""'))),
        CS(f"{P}CmpB", (E,), F(FS("v", "prop", "int", "int", default="0"), FS("note", "prop", "str", "str", compare=False, default='""'))),
        # a class that is not defined at module top level
        CS(f"{P}Local", (E,), F(FS("v", "prop", "int", "int", default="0"), FS("kid", "child", f"{E} | None", "opt", (E,), default="None")), local=True),
        # a non-comparable property holding an opaque object (generators include this class only on request)
        CS(f"{P}Handle", (E,), F(FS("name", "prop", "str", "str", default='""'), FS("symbol", "prop", "Any", "symbol", compare=False, default="None"), FS("kid", "child", f"{E} | None", "opt", (E,), default="None"))),
        # a bytes-valued property (valid and invalid UTF-8)
        CS(f"{P}Blob", (E,), F(FS("data", "prop", "bytes", "bytes", default='b""'), FS("kid", "child", f"{E} | None", "opt", (E,), default="None"))),
        # same child field names, other declaration order and other kinds
        CS(f"{P}SwapA", (E,), F(FS("first", "child", f"{E} | None", "opt", (E,), default="None"), FS("second", "child", f"tuple[{E}, ...]", "tuple", (E,), default="()"))),
        CS(f"{P}SwapB", (E,), F(FS("second", "child", f"{E} | None", "opt", (E,), default="None"), FS("first", "child", f"tuple[{E}, ...]", "tuple", (E,), default="()"))),
        CS(
            f"{P}Case",
            (E,),
            F(
                FS("Name", "prop", "str", "str", default='""'),
                FS("_Aux", "prop", "int", "int", default="0"),
                FS("Zed", "child", f"{E} | None", "opt", (E,), default="None"),
            ),
        ),
        CS(
            f"{P}Var",
            (E,),
            F(FS("v", "prop", "int", "int", default="0"), FS("kid", "child", f"{E} | None", "opt", (E,), kw_only=True, default="None")),
            body='    kind: ClassVar[str] = "var"\n    registry_hint: ClassVar[tuple] = ()\n',
        ),
        # a base class whose keyword-only child field is declared before the positional child fields of its subclasses
        # (declaration order is the traversal order, whatever the order of the parameters of __init__)
        CS(f"{P}KwStmt", (E,), F(FS("comment", "child", f"{E} | None", "opt", (E,), kw_only=True, default="None"), FS("line", "prop", "int", "int", kw_only=True, default="0"))),
        CS(f"{P}KwAssign", (f"{P}KwStmt",), F(FS("target", "child", E, "one", (E,)), FS("values", "child", f"tuple[{E}, ...]", "tuple", (E,), default="()"), FS("note", "child", f"{E} | None", "opt", (E,), kw_only=True, default="None"), FS("last", "child", f"{E} | None", "opt", (E,), default="None"))),
        CS(f"{P}Tagged", (f"_{P}Tag", f"{P}Leaf"), []),  # a plain (non-node) mixin first in the bases
        CS(f"{P}Name2", (f"{P}Name",), F(FS("alias", "prop", "str", "str", default='""'))),  # 4 levels: Expr > Leaf > Name > Name2
        CS(f"{P}Left", (E,), F(FS("l", "child", f"{E} | None", "opt", (E,), default="None"), FS("lv", "prop", "int", "int", default="0"))),
        CS(f"{P}Right", (E,), F(FS("r", "child", f"{E} | None", "opt", (E,), default="None"), FS("rv", "prop", "int", "int", default="0"))),
        CS(f"{P}Both", (f"{P}Left", f"{P}Right"), []),
        CS(
            f"{P}Stmt",
            ("ASTNode",),
            F(
                FS("body", "child", f"tuple[{E}, ...]", "tuple", (E,), default="()"),
                FS("label", "prop", "str", "str", default='""'),
                FS("next", "child", f'"Optional[{P}Stmt]"', "opt", (f"{P}Stmt",), default="None"),
            ),
        ),
    ]
    return specs


_CORE_CACHE: dict[tuple[str, int, bool], Universe] = {}


def core_universe(P: str = "U", variant: int = 0, postponed: bool | None = None) -> Universe:
    if postponed is None:
        import os

        postponed = os.environ.get("VERIF_POSTPONED") == "1"
    key = (P, variant, postponed)
    if key not in _CORE_CACHE:
        u = Universe(
            f"verif_universe_{P}",
            core_specs(P, variant),
            postponed=postponed,
            prelude_extra=CORE_PRELUDE.replace("{P}", P),
        )
        u.exec()
        u.P = P  # type: ignore[attr-defined]
        _CORE_CACHE[key] = u
    return _CORE_CACHE[key]


def warm_up(U: Universe, rng, ctx=None) -> list[str]:
    """Instantiate every concrete class once, in a random order: the order of first use among the classes
    of a hierarchy is a configuration (accessors are generated per class on first use), so it must vary
    between shards instead of being fixed by the first generated tree."""
    order = list(U.concrete())
    rng.shuffle(order)
    P = getattr(U, "P", "U")
    made = []
    for cn in order:
        kw = {}
        for f in U.child_fields(cn):
            if f.shape == "one":
                leaf_ok = any(U.is_sub(f"{P}Leaf", t) for t in f.types)
                kw[f.name] = U.cls[f"{P}Leaf"]() if leaf_ok else U.cls[f.types[0]]()
            elif f.shape.startswith("fixed"):
                kw[f.name] = tuple(U.cls[f"{P}Leaf"](v=i) for i in range(int(f.shape[5:])))
        try:
            n = U.cls[cn](**kw)
        except Exception as e:  # noqa: BLE001
            if ctx is None:
                raise
            # a well-typed default instance of a class of the node model cannot even be built: whatever the property under
            # check says about "any node model" does not hold for this one
            ctx.violation("valid-construction-raises", f"constructing a default instance of {cn} raised {type(e).__name__}: {e}"[:300], {"class": cn, "where": "first use of every class in a random order"})
            continue
        made.append(n)
    for n in made:
        n.detach()
    return order


def remodelled_class(U: Universe, tag: str, leaf_first: bool = False):
    """One class name, two definitions in one module (a model factory called twice, a re-run notebook cell):
    the first definition is used, then the class statement is executed again with two more child fields.
    Returns (old class, new class, a leaf class)."""
    P = getattr(U, "P", "U")
    name = f"{P}Remodel{tag}"
    src1 = f"@dataclass(frozen=True)\nclass {name}({P}Expr):\n    first: {P}Expr | None = None\n    v: int = 0\n"
    src2 = src1 + f"    second: tuple[{P}Expr, ...] = ()\n    third: {P}Expr | None = None\n"
    if leaf_first:
        # (the first definition has no child fields at all)
        src1 = f"@dataclass(frozen=True)\nclass {name}({P}Expr):\n    v: int = 0\n"
    exec(compile(src1, f"<remodel {name} 1>", "exec", dont_inherit=True), U.module.__dict__)
    old = U.module.__dict__[name]
    leaf = U.cls[f"{P}Leaf"]
    o = old(v=2) if leaf_first else old(first=leaf(v=1), v=2)
    list(o.dfs()), o.children, list(o.get_properties()), o.duplicate().detach(), o.to_tree()
    o.detach()
    exec(compile(src2, f"<remodel {name} 2>", "exec", dont_inherit=True), U.module.__dict__)
    new = U.module.__dict__[name]
    return old, new, leaf
