"""Tree specs: plain-Python descriptions of trees, their builders, canonical keys,
dumps and position enumeration. Oracles work on specs; only `build` touches pyoak.
"""
from __future__ import annotations

import enum
from pathlib import PurePath
from typing import Any, Callable, Iterator

from . import origins as O
from .universe import FS, Universe


class S:
    """One node of a tree spec. Identity matters: the same S object at two
    positions means *one shared node object* at both positions."""

    __slots__ = ("cls", "props", "kids", "origin", "tag")

    def __init__(self, cls: str, props: dict[str, Any] | None = None, kids: dict[str, Any] | None = None, origin: tuple = ("no",)):
        self.cls = cls
        self.props = props or {}
        self.kids = kids or {}  # field -> S | None | tuple[S, ...]
        self.origin = origin
        self.tag = None

    def copy_shallow(self) -> "S":
        return S(self.cls, dict(self.props), dict(self.kids), self.origin)

    def __repr__(self) -> str:
        return f"S({self.cls},{self.props},{ {k: v for k, v in self.kids.items()} },{self.origin})"


def deep_copy(s: S, memo: dict[int, S] | None = None) -> S:
    """Copy preserving sharing."""
    if memo is None:
        memo = {}
    if id(s) in memo:
        return memo[id(s)]
    n = S(s.cls, dict(s.props), {}, s.origin)
    memo[id(s)] = n
    for k, v in s.kids.items():
        if v is None:
            n.kids[k] = None
        elif isinstance(v, tuple):
            n.kids[k] = tuple(deep_copy(c, memo) for c in v)
        else:
            n.kids[k] = deep_copy(v, memo)
    return n


# ---------------------------------------------------------------------------
# typed canonical values
# ---------------------------------------------------------------------------
def tv(v: Any) -> Any:
    if v is None:
        return ("none",)
    if isinstance(v, bool):
        return ("bool", v)
    if isinstance(v, int):
        return ("int", v)
    if isinstance(v, float):
        return ("float", repr(v))
    if isinstance(v, str):
        return ("str", v)
    if isinstance(v, enum.Enum):
        return ("enum", type(v).__name__, v.name)
    if isinstance(v, PurePath):
        return ("path", v.as_posix())
    if isinstance(v, tuple):
        return ("tuple", tuple(tv(x) for x in v))
    if isinstance(v, frozenset):
        return ("fset", frozenset(tv(x) for x in v))
    if isinstance(v, list):
        return ("list", tuple(tv(x) for x in v))
    return ("obj", type(v).__name__, repr(v))


def jsonable(x: Any) -> Any:
    """Make canonical values JSON-serialisable for evidence / replay files."""
    if isinstance(x, (str, int, float, bool)) or x is None:
        return x
    if isinstance(x, (tuple, list)):
        return [jsonable(i) for i in x]
    if isinstance(x, (set, frozenset)):
        return {"set": sorted((jsonable(i) for i in x), key=repr)}
    if isinstance(x, dict):
        return {str(k): jsonable(v) for k, v in x.items()}
    if isinstance(x, S):
        return spec_json(x)
    return repr(x)


def spec_json(s: S, memo: dict[int, int] | None = None) -> Any:
    if memo is None:
        memo = {}
    if id(s) in memo:
        return {"shared_ref": memo[id(s)]}
    memo[id(s)] = len(memo)
    d: dict[str, Any] = {"n": memo[id(s)], "cls": s.cls}
    if s.props:
        d["props"] = {k: jsonable(tv(v)) for k, v in s.props.items()}
    if s.origin != ("no",):
        d["origin"] = jsonable(s.origin)
    kids = {}
    for k, v in s.kids.items():
        if v is None:
            kids[k] = None
        elif isinstance(v, tuple):
            kids[k] = [spec_json(c, memo) for c in v]
        else:
            kids[k] = spec_json(v, memo)
    if kids:
        d["kids"] = kids
    return d


# ---------------------------------------------------------------------------
# building
# ---------------------------------------------------------------------------
class _Factory:
    def __repr__(self):
        return "<per-instance default_factory value>"


FACTORY = _Factory()


# derivation rules of the universe's derived (init=False) properties, by field name
DERIVED = {
    "n": lambda s: len(s.kids.get("items", ()) or ()),
    "has_doc": lambda s: bool(s.props.get("doc", "")),
}


def effective_props(U: Universe, s: S) -> dict[str, Any]:
    """All user property values of the node the spec describes (defaults filled
    in by evaluating the class spec's default source in the universe module)."""
    out = {}
    for f in U.prop_fields(s.cls):
        if f.shape == "derived":
            # a property the class derives in its own __post_init__ (the spec knows the rule)
            out[f.name] = DERIVED[f.name](s)
        elif f.name in s.props and f.init:
            out[f.name] = s.props[f.name]
        elif f.factory is not None:
            out[f.name] = FACTORY  # per-instance value, unknown to the spec
        else:
            out[f.name] = eval(f.default, U.module.__dict__) if f.default is not None else None
    return out


def effective_kids(U: Universe, s: S) -> dict[str, Any]:
    out = {}
    for f in U.child_fields(s.cls):
        if f.name in s.kids:
            out[f.name] = s.kids[f.name]
        else:
            out[f.name] = () if f.shape in ("tuple", "list") else None
    return out


def build(U: Universe, s: S, memo: dict[int, Any] | None = None, origin_fn: Callable[[S], Any] | None = None, after: Callable[[S, Any], None] | None = None) -> Any:
    """Bottom-up construction of the real tree. memo: id(spec) -> node.
    after(spec, node) is called right after each node is constructed."""
    if memo is None:
        memo = {}
    if id(s) in memo:
        return memo[id(s)]
    kw: dict[str, Any] = {}
    for f in U.child_fields(s.cls):
        if f.name not in s.kids:
            continue
        v = s.kids[f.name]
        if v is None:
            kw[f.name] = None
        elif isinstance(v, tuple):
            kw[f.name] = tuple(build(U, c, memo, origin_fn, after) for c in v)
        else:
            kw[f.name] = build(U, v, memo, origin_fn, after)
    for f in U.prop_fields(s.cls):
        if f.name in s.props and f.init:
            kw[f.name] = s.props[f.name]
    kw["origin"] = origin_fn(s) if origin_fn else O.build_origin(s.origin)
    node = U.cls[s.cls](**kw)
    memo[id(s)] = node
    if after is not None:
        after(s, node)
    return node


# ---------------------------------------------------------------------------
# positions
# ---------------------------------------------------------------------------
class Pos:
    __slots__ = ("path", "spec", "parent", "field", "index", "depth")

    def __init__(self, path, spec, parent, field, index, depth):
        self.path = path  # tuple of (field, index|None)
        self.spec = spec
        self.parent = parent  # Pos | None
        self.field = field
        self.index = index
        self.depth = depth


def child_slots(U: Universe, s: S) -> list[tuple[str, int | None, S]]:
    """(field, index, child spec) in declaration order, tuple elements left to right."""
    out = []
    for f in U.child_fields(s.cls):
        v = s.kids.get(f.name)
        if v is None:
            continue
        if isinstance(v, tuple):
            for i, c in enumerate(v):
                out.append((f.name, i, c))
        else:
            out.append((f.name, None, v))
    return out


def preorder(U: Universe, s: S, include_root: bool = True) -> list[Pos]:
    """Pre-order list of positions (iterative, so deep chains are fine)."""
    root = Pos((), s, None, None, None, 0)
    out: list[Pos] = [root] if include_root else []
    stack = [root]
    while stack:
        p = stack.pop()
        if p is not root:
            out.append(p)
        kids = [Pos(p.path + ((fn, ix),), c, p, fn, ix, p.depth + 1) for fn, ix, c in child_slots(U, p.spec)]
        stack.extend(reversed(kids))
    return out


def count_nodes(U: Universe, s: S) -> int:
    return len(preorder(U, s))


def node_at(root: Any, path: tuple) -> Any:
    n = root
    for fname, idx in path:
        n = getattr(n, fname)
        if idx is not None:
            n = n[idx]
    return n


# ---------------------------------------------------------------------------
# canonical content key (the reference notion of "content")
# ---------------------------------------------------------------------------
def content_key(U: Universe, s: S, memo: dict[int, Any] | None = None) -> Any:
    """Class, comparable property values (typed), children field by field."""
    if memo is None:
        memo = {}
    if id(s) in memo:
        return memo[id(s)]
    ep = effective_props(U, s)
    props = tuple(sorted((f.name, tv(ep[f.name])) for f in U.prop_fields(s.cls) if f.compare))
    kids = []
    ek = effective_kids(U, s)
    for f in sorted(U.child_fields(s.cls), key=lambda f: f.name):
        v = ek[f.name]
        if v is None:
            kids.append((f.name, None))
        elif isinstance(v, tuple):
            kids.append((f.name, ("T", tuple(content_key(U, c, memo) for c in v))))
        else:
            kids.append((f.name, ("1", content_key(U, v, memo))))
    k = (s.cls, props, tuple(kids))
    memo[id(s)] = k
    return k


def origin_profile(U: Universe, s: S) -> tuple:
    """Origins at every position, pre-order."""
    return tuple(O.canon_spec(p.spec.origin) for p in preorder(U, s))


# ---------------------------------------------------------------------------
# dump of a real node (attribute walk using the universe's field knowledge)
# ---------------------------------------------------------------------------
def dump_node(U: Universe, node: Any, with_id: bool = True) -> Any:
    cn = type(node).__name__
    props = {f.name: tv(getattr(node, f.name)) for f in U.prop_fields(cn)}
    if type(node) is not U.cls.get(cn):
        cn = cn + "<not the universe's class object>"
    kids = []
    for f in U.child_fields(type(node).__name__):
        v = getattr(node, f.name)
        if v is None:
            kids.append((f.name, None))
        elif isinstance(v, tuple):
            kids.append((f.name, tuple(dump_node(U, c, with_id) for c in v)))
        else:
            kids.append((f.name, dump_node(U, v, with_id)))
    return (
        cn,
        node.id if with_id else None,
        node.content_id,
        tuple(sorted(props.items())),
        O.canon_real_full(node.origin),
        tuple(kids),
    )


def real_preorder(U: Universe, node: Any) -> list[tuple[tuple, Any]]:
    """(path, node) pairs by walking the dataclass fields named in the class spec."""
    out = []
    stack = [((), node)]
    while stack:
        path, n = stack.pop()
        out.append((path, n))
        kids = []
        for f in U.child_fields(type(n).__name__):
            v = getattr(n, f.name)
            if v is None:
                continue
            if isinstance(v, tuple):
                for i, c in enumerate(v):
                    kids.append((path + ((f.name, i),), c))
            else:
                kids.append((path + ((f.name, None),), v))
        stack.extend(reversed(kids))
    return out
