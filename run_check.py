#!/venv/bin/python
"""Driver for the runtime-monitoring checks of pyoak (see DESIGN.md §0.1).

  run_check.py <ID> [--tier quick|thorough] [--replay FILE]

Exit codes: 0 held on everything observed; 1 violation (prints
"VIOLATION property=<id> replay=<path>"); 3 inconclusive (watchdog fired, shard
died, or a must-see counter stayed at zero).
"""
from __future__ import annotations

import argparse
import importlib
import json
import os
import shutil
import subprocess
import sys
import tempfile
import time
import traceback
from collections import Counter
from concurrent.futures import ThreadPoolExecutor

HERE = os.path.dirname(os.path.abspath(__file__))
PY = "/venv/bin/python"
DEPS = os.path.join(HERE, ".deps")
WHEELS = "/opt/veriftools/wheels"


def pyoak_src() -> str:
    return os.environ.get("PYOAK_SRC", "/repo/src")


def ensure_deps() -> None:
    """icontract beside the repo's interpreter (offline, from the wheelhouse)."""
    if os.path.isdir(os.path.join(DEPS, "icontract")):
        return
    os.makedirs(DEPS, exist_ok=True)
    subprocess.run(
        [PY, "-m", "pip", "install", "-q", "--no-index", "--find-links", WHEELS, "--target", DEPS, "icontract"],
        check=False,
        stdout=subprocess.DEVNULL,
        stderr=subprocess.DEVNULL,
    )


def load_known(prop: str) -> dict[str, dict]:
    path = os.path.join(HERE, "known_findings.json")
    try:
        data = json.load(open(path))
    except FileNotFoundError:
        return {}
    out = {}
    for e in data.get("findings", []):
        if e.get("property") == prop and e.get("status") == "known":
            out[e["mechanism"]] = e
    return out


# ---------------------------------------------------------------------------
# worker side
# ---------------------------------------------------------------------------
class Ctx:
    def __init__(self, prop: str, tier: str, seed: int, shard: int, nshards: int, params: dict):
        self.prop = prop
        self.tier = tier
        self.seed = seed
        self.shard = shard
        self.nshards = nshards
        self.params = params
        self.counters: Counter = Counter()
        self.fingerprints: set[str] = set()
        self.samples: list = []
        self.violations: list[dict] = []
        self.extra: dict = {}
        self.evaluations = 0
        self.case = None
        self.only_case = None  # replay: run only this case

    def rng(self, case, salt: str = ""):
        import random

        return random.Random(f"{self.seed}:{self.prop}:{self.shard}:{case}:{salt}")

    def count(self, name: str, n: int = 1) -> None:
        self.counters[name] += n

    def fp(self, obj) -> None:
        """Register a distinct non-trivial case fingerprint."""
        import hashlib

        if not isinstance(obj, str):
            obj = repr(obj)
        self.fingerprints.add(hashlib.blake2b(obj.encode("utf-8", "surrogatepass"), digest_size=8).hexdigest())

    def sample(self, obj, cap: int = 3) -> None:
        if len(self.samples) < cap:
            self.samples.append(obj)

    def violation(self, mechanism: str, what: str, detail=None, case=None) -> None:
        """mechanism: short stable classifier (matched against known_findings.json)."""
        self.counters["violations_raw"] += 1
        if len(self.violations) < 200:
            self.violations.append(
                {
                    "mechanism": mechanism,
                    "what": what,
                    "detail": detail,
                    "case": case if case is not None else self.case,
                    "shard": self.shard,
                    "seed": self.seed,
                    "tier": self.tier,
                }
            )

    def cases(self, n: int):
        """Iterate case indices (or only the replayed one)."""
        if self.only_case is not None:
            self.case = self.only_case
            yield self.only_case
            return
        for i in range(n):
            self.case = i
            yield i


def worker_main(args) -> int:
    import faulthandler

    sys.path.insert(0, HERE)
    if os.path.isdir(DEPS):
        sys.path.insert(0, DEPS)
    sys.path.insert(0, pyoak_src())
    faulthandler.enable()
    mod = importlib.import_module(f"checks.{args.id.lower()}")
    cfg = mod.CONFIG[args.tier]
    wd = int(cfg.get("watchdog_s", 900))
    faulthandler.dump_traceback_later(wd, exit=True)
    ctx = Ctx(args.id, args.tier, args.seed, args.shard, int(cfg["shards"]), dict(cfg))
    # per-shard configurations of the library (the properties hold whatever these switches say)
    conf = []
    if args.shard % 4 == 3 and not getattr(mod, "NO_POSTPONED", False):
        os.environ["VERIF_POSTPONED"] = "1"  # core universe declared with `from __future__ import annotations`
        conf.append("postponed-annotations")
    if args.shard % 8 in (4, 7):
        os.environ["VERIF_EARLY_INTROSPECT"] = "1"  # every universe class is asked for its fields right after its class statement
        conf.append("early-introspection")
    if args.shard % 2 == 1:
        import logging

        from pyoak import config as _cfg

        _cfg.TRACE_LOGGING = True
        try:
            import pyoak.legacy.node as _ln

            _ln.TRACE_LOGGING = True
        except Exception:  # noqa: BLE001
            pass
        logging.basicConfig(level=logging.DEBUG, stream=open(os.devnull, "w"))
        conf.append("trace-logging")
    if args.shard % 4 == 2 and (getattr(mod, "TYPECHECK_OK", False) or os.environ.get("VERIF_FORCE_TYPECHECK")):  # (the variable: development only)
        from pyoak import config as _cfg

        _cfg.RUNTIME_TYPE_CHECK = True
        conf.append("runtime-type-check")
    if args.shard % 4 == 0 and not getattr(mod, "NO_FOREIGN_HISTORY", False) and args.case is None:
        # the other subsystems of the library are used first (vlib/foreign.py): whatever they leave behind in shared state
        # must not show in the operations the property talks about
        from vlib.foreign import foreign_history

        ctx.extra["foreign_history"] = foreign_history(args.id, str(args.seed), args.shard)
        conf.append("foreign-history")
    ctx.extra["library_configuration"] = "+".join(conf) or "defaults"
    if args.case is not None:
        ctx.only_case = json.loads(args.case)
    status = "ok"
    err = None
    t0 = time.time()
    try:
        mod.run_shard(ctx)
    except BaseException:  # noqa: BLE001 - a crashing harness is inconclusive, never "held"
        status = "error"
        err = traceback.format_exc()
    out = {
        "status": status,
        "error": err,
        "shard": args.shard,
        "counters": dict(ctx.counters),
        "fingerprints": sorted(ctx.fingerprints),
        "samples": ctx.samples,
        "violations": ctx.violations,
        "evaluations": ctx.evaluations,
        "extra": ctx.extra,
        "wall_s": time.time() - t0,
    }
    with open(args.out, "w") as f:
        json.dump(out, f, default=repr)
    return 0


# ---------------------------------------------------------------------------
# driver side
# ---------------------------------------------------------------------------
def run_one_shard(prop: str, tier: str, seed: int, shard: int, outdir: str, timeout: int, case=None, hashseed=None) -> dict:
    out = os.path.join(outdir, f"shard{shard}.json")
    env = dict(os.environ)
    env["PYTHONPATH"] = os.pathsep.join([pyoak_src(), HERE] + ([DEPS] if os.path.isdir(DEPS) else []))
    env["PYTHONHASHSEED"] = str(hashseed if hashseed is not None else (seed * 1000003 + shard * 7919 + 1) % 4294967295)
    env["PYTHONDONTWRITEBYTECODE"] = "1"
    env.setdefault("PYOAK_VERIF", "1")
    cmd = [PY, os.path.join(HERE, "run_check.py"), prop, "--worker", "--tier", tier, "--seed", str(seed), "--shard", str(shard), "--out", out]
    if case is not None:
        cmd += ["--case", json.dumps(case)]
    try:
        p = subprocess.run(cmd, env=env, timeout=timeout, capture_output=True, text=True, cwd=outdir)
        if os.environ.get("VERIF_DEBUG"):
            sys.stderr.write(p.stderr[-6000:])
    except subprocess.TimeoutExpired:
        return {"status": "timeout", "shard": shard, "error": f"shard exceeded {timeout}s wall clock"}
    if not os.path.exists(out):
        return {"status": "died", "shard": shard, "error": (p.stderr or "")[-3000:], "rc": p.returncode}
    try:
        return json.load(open(out))
    except Exception as e:  # noqa: BLE001
        return {"status": "died", "shard": shard, "error": f"unreadable shard output: {e}"}


def main() -> int:
    ap = argparse.ArgumentParser()
    ap.add_argument("id")
    ap.add_argument("--tier", default=os.environ.get("VERIF_TIER", "quick"), choices=["quick", "thorough"])
    ap.add_argument("--replay")
    ap.add_argument("--worker", action="store_true")
    ap.add_argument("--seed", type=int, default=None)
    ap.add_argument("--shard", type=int, default=0)
    ap.add_argument("--case", default=None)
    ap.add_argument("--out")
    args = ap.parse_args()
    args.id = args.id.upper()
    if args.seed is None:
        try:
            args.seed = int(os.environ.get("VERIF_SEED", "0"))
        except ValueError:
            args.seed = 0
    if args.worker:
        return worker_main(args)

    ensure_deps()
    sys.path.insert(0, HERE)
    t0 = time.time()
    prop = args.id
    # import only for CONFIG / metadata; pyoak is imported by workers
    sys.path.insert(0, pyoak_src())
    if os.path.isdir(DEPS):
        sys.path.insert(0, DEPS)
    mod = importlib.import_module(f"checks.{prop.lower()}")
    tier = args.tier
    replay_case = None
    replay_shard = None
    if args.replay:
        rd = json.load(open(args.replay))
        tier = rd.get("tier", tier)
        args.seed = rd.get("seed", args.seed)
        replay_case = rd.get("case")
        replay_shard = rd.get("shard", 0)
    cfg = mod.CONFIG[tier]
    nshards = int(cfg["shards"])
    timeout = int(cfg.get("watchdog_s", 900)) + 60
    scratch = tempfile.mkdtemp(prefix=f"verif_{prop}_", dir=os.environ.get("VERIF_SCRATCH", tempfile.gettempdir()))
    try:
        if args.replay and (replay_shard is None or replay_shard < 0):
            # a witness found by the cross-shard join: replay = the whole run with the recorded seed
            args.replay = None
        shards = [replay_shard] if args.replay else list(range(nshards))
        par = int(os.environ.get("VERIF_JOBS", "16"))
        with ThreadPoolExecutor(max_workers=par) as ex:
            futs = [
                ex.submit(run_one_shard, prop, tier, args.seed, s, scratch, timeout, replay_case if args.replay else None)
                for s in shards
            ]
            results = [f.result() for f in futs]
        # optional second stage (fresh-process legs) run by the module itself
        if hasattr(mod, "post_stage") and not args.replay:
            try:
                results = mod.post_stage(results, scratch, args.seed, tier, run_one_shard) or results
            except Exception:  # noqa: BLE001
                results.append({"status": "error", "shard": -1, "error": traceback.format_exc()})
    finally:
        shutil.rmtree(scratch, ignore_errors=True)

    counters: Counter = Counter()
    fps: set[str] = set()
    samples: list = []
    violations: list[dict] = []
    evaluations = 0
    problems: list[str] = []
    extras: list[dict] = []
    for r in results:
        if r.get("status") != "ok":
            problems.append(f"shard {r.get('shard')}: {r.get('status')}: {str(r.get('error'))[-1500:]}")
            if r.get("status") not in ("error",):
                continue
        counters.update(r.get("counters", {}))
        fps.update(r.get("fingerprints", []))
        for s in r.get("samples", []):
            if len(samples) < 5:
                samples.append(s)
        violations.extend(r.get("violations", []))
        evaluations += int(r.get("evaluations", 0))
        extras.append(r.get("extra", {}))

    # cross-shard oracle
    if hasattr(mod, "merge") and not args.replay:
        try:
            more = mod.merge(extras, counters)
            violations.extend(more or [])
        except Exception:  # noqa: BLE001
            problems.append("merge failed: " + traceback.format_exc()[-1500:])

    known = load_known(prop)
    known_seen: dict[str, int] = Counter()
    real: list[dict] = []
    for v in violations:
        if v["mechanism"] in known:
            known_seen[v["mechanism"]] += 1
        else:
            real.append(v)

    missing = [c for c in getattr(mod, "MUST_SEE", []) if counters.get(c, 0) == 0] if not args.replay else []

    # ---- evidence ----
    wall = time.time() - t0
    cov = {
        "evaluations": int(evaluations),
        "distinct_nontrivial": len(fps),
        "rule": getattr(mod, "RULE", ""),
        "samples": samples if samples else [],
        "counters": dict(sorted(counters.items())),
        "must_see": {c: counters.get(c, 0) for c in getattr(mod, "MUST_SEE", [])},
        "shards": nshards,
        "shard_problems": problems,
        "known_findings_reobserved": dict(known_seen),
        "pyoak_src": pyoak_src(),
    }
    # small per-shard observations (examples of no-verdict cases, aborted histories, line-event counts, ...)
    notes = {}
    for e in extras:
        for k, v in (e or {}).items():
            if k in ("cmap", "idmap", "_fqn"):
                continue
            cur = notes.setdefault(k, [])
            if isinstance(v, list):
                cur.extend(v[: max(0, 8 - len(cur))])
            elif len(cur) < 4 and v not in cur:
                cur.append(v)
    if notes:
        cov["observations"] = json.loads(json.dumps(notes, default=repr))
    if getattr(mod, "EXHAUSTIVE", None) is not None:
        cov["exhaustive"] = bool(mod.EXHAUSTIVE.get(tier, False)) if isinstance(mod.EXHAUSTIVE, dict) else bool(mod.EXHAUSTIVE)
    ev = {
        "property_id": prop,
        "tier": tier,
        "seed": int(args.seed),
        "level": getattr(mod, "LEVEL", "exploration"),
        "coverage": cov,
        "assumptions": getattr(mod, "ASSUMPTIONS", []),
        "wall_s": round(wall, 2),
        "violations": len(real),
        "verdict": "violated" if real else ("inconclusive" if (problems or missing) else "held_on_observed"),
    }
    if not args.replay and not os.environ.get("VERIF_NO_EVIDENCE"):
        os.makedirs(os.path.join(HERE, "evidence"), exist_ok=True)
        with open(os.path.join(HERE, "evidence", f"{prop}.json"), "w") as f:
            json.dump(ev, f, indent=1, default=repr)

    # ---- verdict ----
    for mech, n in sorted(known_seen.items()):
        print(f"KNOWN-FINDING: property={prop} {known[mech]['key']} {known[mech]['what']} (re-observed {n}x)")
    print(
        f"[{prop}] tier={tier} seed={args.seed} evaluations={evaluations} distinct_nontrivial={len(fps)} "
        f"wall={wall:.1f}s counters={dict(sorted(counters.items()))}"
    )
    if real:
        rdir = os.path.join(os.environ.get("VERIF_REPLAY_DIR", os.path.join(HERE, "replays")), prop)
        os.makedirs(rdir, exist_ok=True)
        seen_mech: dict[str, int] = Counter()
        first_path = None
        for v in real:
            seen_mech[v["mechanism"]] += 1
            if seen_mech[v["mechanism"]] > 3:
                continue
            n = len(os.listdir(rdir))
            path = os.path.join(rdir, f"{n}.json")
            with open(path, "w") as f:
                json.dump(v, f, indent=1, default=repr)
            first_path = first_path or path
            print(f"VIOLATION property={prop} replay={path}")
            print(f"   mechanism={v['mechanism']} what={v['what']}")
            print(f"   detail={json.dumps(v.get('detail'), default=repr)[:1500]}")
        print(f"[{prop}] {len(real)} violation(s), mechanisms: {dict(seen_mech)}")
        return 1
    if problems or missing:
        for p in problems:
            print(f"INCONCLUSIVE property={prop} {p}")
        if missing:
            print(f"INCONCLUSIVE property={prop} must-see counters at zero: {missing}")
        return 3
    print(f"[{prop}] held on everything observed")
    return 0


if __name__ == "__main__":
    sys.exit(main())
