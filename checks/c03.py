"""C03 — the registry holds exactly the live, not-detached nodes under unique ids.

History + shadow model: random histories of the public operations over a handle
table owned by the harness; after *every* operation the whole NODE_REGISTRY is
compared, object-identically, with a model updated by the documented effect of
the operation. Digest sizes 8, 2 and 1.
"""
from __future__ import annotations

import dataclasses
import gc
import hashlib
import sys
import weakref

from vlib import gen as G
from vlib import origins as O
from vlib.regmodel import RegModel, collect, reachable, registry_snapshot, subtree_objects
from vlib.spec import S, build, content_key, deep_copy, preorder, spec_json, effective_props, tv
from vlib.universe import core_universe

LEVEL = "exploration"
RULE = (
    "histories of 25-60 operations (construct from a pool of <= 8 contents x <= 3 origins so that twins are the norm, "
    "construct a parent over existing nodes, duplicate, dataclasses.replace, ASTNode.replace succeeding / failing with "
    "TypeError, ValueError, InvalidTypes, detach and detach_self on live, detached and stale nodes, as_obj(as_dict) while "
    "alive and after dropping, read-only use of caches, drop + gc) under ID_DIGEST_SIZE 8, 2 and 1; the registry is "
    "compared with the shadow model after every operation; non-trivial = history containing a detach/replace on a stale "
    "receiver or a drop; distinct = distinct operation-kind sequences"
)
ASSUMPTIONS = [
    "a node is 'still referenced' iff reachable from the harness' handle table through child fields",
    "as_obj is modelled top-down: a payload position whose id is registered yields the registered object and its payload subtree is not visited",
    "at digest sizes 1 and 2 only the un-suffixed part of a fresh id is required to be deterministic (different contents collide)",
]
TYPECHECK_OK = True  # every generated value conforms to its annotation: some shards run with RUNTIME_TYPE_CHECK on
MUST_SEE = ["long_values_differing_in_the_middle", "deep_3000_detaches", "failing_duplicate", "remodelled_class_detach", "replace_without_changes", "id_determinism_checks_with_occupied_neighbours", 
    "op_detach_stale_with_live_twin", "op_replace_fail", "drops", "suffix_ge_2", "detach_depth_ge2", "asobj_recreated",
    "asobj_reused", "digest1_histories", "dead_weakrefs_checked", "replace_on_stale", "id_determinism_checks", "replace_fail_after_registration",
]
CONFIG = {
    "quick": {"shards": 16, "histories": 100, "ops": 35, "watchdog_s": 300},
    "thorough": {"shards": 32, "histories": 500, "ops": 60, "watchdog_s": 3000},
}


def full_key(U, n):
    """(class, origin, comparable props, direct children as (content_id, origin)) read from the live node."""
    cn = type(n).__name__
    props = tuple((f.name, tv(getattr(n, f.name))) for f in sorted(U.prop_fields(cn), key=lambda f: f.name) if f.compare)
    kids = []
    for f in sorted(U.child_fields(cn), key=lambda f: f.name):
        v = getattr(n, f.name)
        if v is None:
            kids.append((f.name, None))
        elif isinstance(v, tuple):
            kids.append((f.name, tuple((c.content_id, O.canon_real(c.origin)) for c in v)))
        else:
            kids.append((f.name, ((v.content_id, O.canon_real(v.origin)),)))
    return (cn, O.canon_real(n.origin), props, tuple(kids))


class History:
    def __init__(self, ctx, U, rng, digest):
        self.ctx, self.U, self.rng, self.digest = ctx, U, rng, digest
        self.model = RegModel(U)
        self.handles: list = []
        self.log: list = []
        self.fullkeys_registered: dict = {}  # full key -> count of registered nodes with it (recomputed)
        self.failed = False

    # ---- bookkeeping ----
    idmap2: dict = {}  # per process: (content key, occupied neighbouring ids) -> id

    def bad(self, mech, what, **d):
        d["log"] = self.log[-25:]
        d["digest_size"] = self.digest
        self.ctx.violation(mech, what, d)
        self.failed = True

    def all_nodes(self):
        return list(reachable(self.U, self.handles).values())

    def note_new(self, nodes, op):
        """nodes freshly constructed by the library: register in the model, check uniqueness + determinism."""
        for n in nodes:
            err = self.model.register(n)
            if err:
                self.bad("duplicate-id", err, op=op)
            if "_" in n.id:
                try:
                    if int(n.id.rsplit("_", 1)[1]) >= 2:
                        self.ctx.count("suffix_ge_2")
                except ValueError:
                    pass

    def check(self, op):
        err = self.model.compare()
        if err:
            self.bad("registry-vs-model", err, op=op)
            return
        # lookups for every reachable node
        from pyoak.node import ASTNode

        U = self.U
        P = U.P
        for n in self.all_nodes():
            e = self.model.reg.get(n.id)
            exp = None
            if e is not None:
                exp = e[1]()
            got = ASTNode.get_any(n.id)
            # the any-type lookup is the same whichever class or instance it is called through
            for via in (U.cls[f"{P}Leaf2"], U.cls[f"{P}Stmt"], n):
                if via.get_any(n.id) is not got:
                    self.bad("get_any", f"get_any(id) called through {via.__name__ if isinstance(via, type) else 'an instance'} differs from ASTNode.get_any(id)", op=op, id=n.id)
                    return
            if got is not exp:
                self.bad("get_any", "get_any(id) disagrees with the model", op=op, id=n.id)
                return
            reg = self.model.is_registered(n)
            C = type(n)
            if (C.get(n.id) is n) != reg and (exp is None or type(exp) is not C or exp is n):
                self.bad("get-strict", "Cls.get(id) wrong for own class", op=op, id=n.id)
                return
            if exp is not None:
                sentinel = U.cls[f"{P}Leaf"]
                base = U.cls[f"{P}Expr"]
                if isinstance(exp, base):
                    if base.get(exp.id, strict=False) is not exp:
                        self.bad("get-nonstrict", "Base.get(id, strict=False) does not return the instance of a subclass", op=op)
                        return
                    if type(exp) is not base and base.get(exp.id) is not None:
                        self.bad("get-strict", "Base.get(id) (strict) returned an instance of a subclass", op=op)
                        return
                sib = U.cls[f"{P}Leaf2"] if type(exp).__name__ != f"{P}Leaf2" else U.cls[f"{P}Leaf"]
                if not isinstance(exp, sib) and (sib.get(exp.id) is not None or sib.get(exp.id, strict=False) is not None):
                    self.bad("get-strict", "Sibling.get(id) returned a node of another class", op=op)
                    return
            else:
                d = object()
                if ASTNode.get_any(n.id, d) is not d or C.get(n.id, "dflt") != "dflt":
                    self.bad("get-default", "default not returned for an unregistered id", op=op)
                    return

    # ---- operations ----
    def op_construct(self, spec):
        U = self.U
        # id determinism: record expectation before building (bottom-up, node by node)
        before = registry_snapshot()
        root = build(U, spec)
        new = [o for o in {id(o): o for o in subtree_objects(U, root)}.values()]
        self.handles.append(root)
        self.note_new(new, "construct")
        return root

    def determinism(self, n, had_twin: bool):
        """A node created while no registered node has the same class, origin, comparable content and direct
        children gets the same id every time. Judged only at the default digest size (at sizes 1 and 2 other
        contents collide, so the id legitimately depends on what else is registered) and only without twin."""
        if had_twin:
            return
        # at every digest size: the same content created again while the ids around its plain id are occupied in the
        # same way (by nodes of other content: no twin) gets the same id again
        from pyoak.node import NODE_REGISTRY

        base = n.id.split("_")[0]
        occ = tuple(sorted(k for k in list(NODE_REGISTRY.keys()) if k != n.id and (k == base or k.startswith(base + "_"))))
        k2 = hashlib.blake2b(repr((full_key(self.U, n), occ)).encode("utf-8", "surrogatepass"), digest_size=10).hexdigest()
        m2 = self.idmap2.setdefault(str(self.digest), {})
        prev2 = m2.setdefault(k2, n.id)
        if occ:
            self.ctx.count("id_determinism_checks_with_occupied_neighbours")
        if prev2 != n.id:
            self.bad("id-nondeterministic", "the same class/origin/content/children, created again with the same neighbouring ids occupied (no registered twin), got a different id", id=n.id, prev=prev2, occupied=list(occ))
        if self.digest < 8:
            return
        k = hashlib.blake2b(repr(full_key(self.U, n)).encode("utf-8", "surrogatepass"), digest_size=10).hexdigest()
        m = self.ctx.extra.setdefault("idmap", {}).setdefault(str(self.digest), {})
        prev = m.setdefault(k, n.id)
        self.ctx.count("id_determinism_checks")
        if prev != n.id:
            self.bad("id-nondeterministic", "same class/origin/content/children (no registered twin) got a different id", id=n.id, prev=prev)

    def run(self, nops):
        ctx, U, rng = self.ctx, self.U, self.rng
        from pyoak import config
        from pyoak.error import InvalidTypes
        from pyoak.node import NODE_REGISTRY, ASTNode

        P = U.P
        tg = G.TreeGen(rng, U, max_nodes=6, max_depth=3, max_width=3, share=0.0, twin=0.3, p_origin=0.0, hostile=0.0, exclude=(f"{P}Stmt", f"{P}Meta"))  # (a lossy field serializer: as_dict / as_obj re-creates another content under a forced id)
        contents = [tg.tree() for _ in range(rng.randint(3, 8))]
        # make sure a depth >= 2 content exists
        contents.append(S(f"{P}Picky", {"v": rng.randrange(3)}))
        contents.append(S(f"{P}Un", {}, {"child": S(f"{P}Bin", {}, {"left": S(f"{P}Leaf", {"v": 1}), "right": S(f"{P}List", {}, {"items": (S(f"{P}Leaf", {"v": 2}),)})})}))
        origs = [("no",), ("code", 0, 1, 3), ("gen", 1), ("code", 9, 1, 3), ("code", 10, 1, 3)]  # 9 and 10: one uri, two different sources (a Source subclass with its own fqn)
        kinds = []
        self.contents, self.origs = contents, origs
        for step in range(nops):
            if self.failed:
                return kinds
            try:
                op = self.do_op()
            except Exception as e:  # noqa: BLE001
                import traceback

                self.bad("unexpected-exception", f"{type(e).__name__}: {e}", tb=traceback.format_exc()[-800:])
                return kinds
            kinds.append(op)
            ctx.evaluations += 1
            ctx.count("ops")
            self.check(op)
        return kinds

    def do_op(self):
        """One operation; all locals die when this returns (the monitor must not keep nodes alive)."""
        ctx, U, rng = self.ctx, self.U, self.rng
        from pyoak import config
        from pyoak.error import InvalidTypes

        P = U.P
        contents, origs = self.contents, self.origs
        nodes = self.all_nodes()
        r = rng.random()
        op = None
        if r < 0.22 or not nodes:
            sp = deep_copy(rng.choice(contents))
            o = rng.choice(origs)
            for p in preorder(U, sp):
                if rng.random() < 0.5:
                    p.spec.origin = o
            op = "construct"
            # determinism is judged for single-node constructions (leaf contents) where the twin test is exact
            self.log.append((op, spec_json(sp)))
            root = self.op_construct(sp)
            for n in subtree_objects(U, root):
                fk = full_key(U, n)
                twins = [m for m in self.all_nodes() if m is not n and self.model.is_registered(m) and full_key(U, m) == fk]
                self.determinism(n, bool(twins))
        elif r < 0.27 and len(nodes) >= 2:
            # parent over existing nodes
            kids = rng.sample(nodes, min(len(nodes), rng.randint(1, 3)))
            kids = [k for k in kids if isinstance(k, U.cls[f"{P}Expr"])]
            op = "construct_over_existing"
            self.log.append((op, [k.id for k in kids]))
            par = U.cls[f"{P}Call"](args=tuple(kids))
            self.handles.append(par)
            self.note_new([par], op)
        elif r < 0.35:
            n = rng.choice(nodes)
            op = "duplicate"
            self.log.append((op, n.id))
            d = n.duplicate()
            self.handles.append(d)
            self.note_new(list({id(o): o for o in subtree_objects(U, d)}.values()), op)
        elif r < 0.42:
            n = rng.choice(nodes)
            op = "dataclasses.replace"
            self.log.append((op, n.id))
            d = dataclasses.replace(n, origin=O.build_origin(rng.choice(origs)))
            self.handles.append(d)
            self.note_new([d], op)
        elif r < 0.54:
            n = rng.choice(nodes)
            stale = not self.model.is_registered(n)
            op = "replace_ok"
            ch = {}
            pf = [f for f in U.prop_fields(type(n).__name__) if f.init]
            if pf and rng.random() < 0.6:
                f = rng.choice(pf)
                ch[f.name] = G.gen_value(rng, U, f, hostile=0.0)
            else:
                ch["origin"] = O.build_origin(rng.choice(origs))
            if rng.random() < 0.12:
                ch = {}  # replace() with nothing to change is a replace like any other: a new node takes the place
                ctx.count("replace_without_changes")
            self.log.append((op, n.id, sorted(ch), "stale" if stale else "live"))
            if stale:
                ctx.count("replace_on_stale")
            new = n.replace(**ch)
            if new is n:
                # (C14 says a new node is returned; for the registry it only matters that a node handed back to the
                # caller as the result is not at the same time treated as replaced away: the model leaves it as it was)
                return op
            self.model.unregister(n)
            self.handles.append(new)
            self.note_new([new], op)
        elif r < 0.64:
            n = rng.choice(nodes)
            how = rng.choice(["TypeError", "ValueError", "InvalidTypes"])
            picky = [x for x in nodes if type(x).__name__ == f"{P}Picky"]
            if picky and rng.random() < 0.5:
                # the node's own __post_init__ raises *after* the base registered the rejected copy
                n = rng.choice(picky)
                how = "post_init_raises"
                ctx.count("replace_fail_after_registration")
            op = "replace_fail"
            self.log.append((op, n.id, how))
            snap = registry_snapshot()
            exc = None
            try:
                if how == "TypeError":
                    n.replace(no_such_field=1)
                elif how == "post_init_raises":
                    n.replace(note="boom")
                elif how == "ValueError":
                    n.replace(content_id="x") if rng.random() < 0.5 else n.replace(id="x")
                else:
                    config.RUNTIME_TYPE_CHECK = True
                    try:
                        n.replace(origin="not an origin")
                    finally:
                        config.RUNTIME_TYPE_CHECK = False
            except (TypeError, ValueError, InvalidTypes) as e:
                exc = type(e).__name__
            if exc is None:
                self.bad("replace-did-not-fail", "a replace that must fail returned", how=how)
            ctx.count("op_replace_fail")
            e = None
            collect()  # the rejected copy (kept alive only by the traceback) must be gone
            if registry_snapshot() != snap:
                self.bad("failing-replace-changed-registry", "a replace() that raised changed the registry", how=how, exc=exc)
        elif r < 0.74:
            n = rng.choice(nodes)
            stale = not self.model.is_registered(n)
            op = "detach"
            e = self.model.reg.get(n.id)
            if stale and e is not None and e[1]() is not None:
                ctx.count("op_detach_stale_with_live_twin")
            depth2 = any(True for c in subtree_objects(U, n)[1:] for _ in subtree_objects(U, c)[1:])
            if depth2:
                ctx.count("detach_depth_ge2")
            self.log.append((op, n.id, "stale" if stale else "live"))
            n.detach()
            self.model.detach_tree(n)
        elif r < 0.82:
            n = rng.choice(nodes)
            stale = not self.model.is_registered(n)
            e = self.model.reg.get(n.id)
            if stale and e is not None and e[1]() is not None:
                ctx.count("op_detach_stale_with_live_twin")
            op = "detach_self"
            self.log.append((op, n.id, "stale" if stale else "live"))
            ret = n.detach_self()
            exp = self.model.unregister(n)
            if ret is not exp:
                self.bad("detach_self-return", "detach_self return value wrong", got=ret, exp=exp)
        elif r < 0.9:
            # as_dict now, as_obj later (possibly after dropping the original)
            hi = rng.randrange(len(self.handles))
            root = self.handles[hi]
            op = "asdict_asobj"
            payload = root.as_dict()
            drop = rng.random() < 0.6
            self.log.append((op, root.id, "drop" if drop else "alive"))
            C = type(root)
            if drop:
                del self.handles[hi]
                del root
                nodes = None
                self.after_drop(op)
            else:
                del root
            nodes = None
            self.as_obj(C, payload, op)
        elif r < 0.94:
            n = rng.choice(nodes)
            op = "use"
            self.log.append((op, n.id))
            t = n.to_tree()
            list(n.dfs())
            n.find(f"//{P}Leaf")
            hash(n)
            str(n.origin)
            if self.digest >= 8:
                _ = n == n
            from rich.console import Console

            if rng.random() < 0.2:
                Console(file=open("/dev/null", "w")).print(n)
            del t
        else:
            op = "drop"
            hi = rng.randrange(len(self.handles))
            self.log.append((op, self.handles[hi].id))
            del self.handles[hi]
            nodes = None
            self.after_drop(op)
        return op

    def after_drop(self, op):
        self.ctx.count("drops")
        dead = self.model.drop_unreachable(self.handles)
        collect()
        for wr in dead:
            self.ctx.count("dead_weakrefs_checked")
            if wr() is not None:
                o = wr()
                self.bad("kept-alive", "a node no longer referenced by the program is still alive after gc", cls=type(o).__name__, id=o.id, referrers=[type(x).__name__ for x in gc.get_referrers(o)][:6])
                return

    def as_obj(self, C, payload, op):
        """Model: top-down with short-circuit; created nodes are registered under the serialized id."""
        U = self.U
        created_paths = []

        def walk(d, path):
            e = self.model.reg.get(d["id"])
            if e is not None and e[1]() is not None:
                self.ctx.count("asobj_reused")
                return
            cn = d["__type"]
            for f in U.child_fields(cn):
                v = d.get(f.name)
                if v is None:
                    continue
                if isinstance(v, (list, tuple)):
                    for i, c in enumerate(v):
                        walk(c, path + ((f.name, i),))
                else:
                    walk(v, path + ((f.name, None),))
            created_paths.append((path, d["id"]))
            # registered from now on (later positions with the same id are the same object)
            self.model.reg[d["id"]] = (0, lambda: True)  # placeholder, fixed below

        before = dict(self.model.reg)
        walk(payload, ())
        self.model.reg = before
        res = C.as_obj(payload)
        self.handles.append(res)
        seen = {}
        for path, sid in created_paths:
            n = res
            for fn, ix in path:
                n = getattr(n, fn)
                if ix is not None:
                    n = n[ix]
            if n.id != sid:
                self.bad("asobj-id", "re-created node does not carry the serialized id", got=n.id, exp=sid)
                return
            self.ctx.count("asobj_recreated")
            self.model.reg[sid] = (id(n), weakref.ref(n))
        if not created_paths:
            e = self.model.reg.get(payload["id"])
            if e is None or e[1]() is not res:
                self.bad("asobj-reuse", "as_obj did not return the registered object", id=payload["id"])


def run_shard(ctx):
    sys.setrecursionlimit(20000)
    from pyoak import config
    from pyoak.node import NODE_REGISTRY

    U = core_universe()
    for case in ctx.cases(ctx.params["histories"]):
        rng = ctx.rng(case)
        digest = [8, 2, 1, 8][case % 4]
        config.ID_DIGEST_SIZE = digest
        if digest == 1:
            ctx.count("digest1_histories")
        collect()
        if len(NODE_REGISTRY) != 0:
            # nodes of earlier histories must be gone once their handles are
            left = [(k, type(v).__name__) for k, v in list(NODE_REGISTRY.items())][:5]
            ctx.violation("kept-alive", "registry not empty after all handles of the previous history were dropped", {"left": left})
            for v in list(NODE_REGISTRY.values()):
                v.detach_self()
        h = History(ctx, U, rng, digest)
        kinds = h.run(ctx.params["ops"])
        if any(k in ("drop",) for k in kinds) or ctx.counters.get("replace_on_stale"):
            ctx.fp(tuple(kinds))
        if case < 1 and ctx.shard == 0:
            ctx.sample({"digest_size": digest, "history": h.log[:12]})
        h.handles.clear()
        h.model.reg.clear()
        del h
    config.ID_DIGEST_SIZE = 8
    if ctx.only_case is None:
        remodel_leg(ctx, U)
        collect()
        failing_duplicate_leg(ctx, U)
        collect()
        if ctx.shard % 4 == 0:
            deep_detach_leg(ctx, U)
            collect()
        long_value_leg(ctx, U)
        collect()


def deep_detach_leg(ctx, U):
    """detach() is promised for every tree: a chain 3000 levels deep (built bottom-up, no recursion needed), detached
    under the interpreter's default recursion limit; afterwards no node of it is found under its id"""
    from pyoak.node import ASTNode

    P = U.P
    for how in ("detach", "detach_from_the_middle"):
        n = U.cls[f"{P}Leaf"](v=424242)
        chain = [n]
        for _ in range(3000):
            n = U.cls[f"{P}Un"](child=n)
            chain.append(n)
        start = n if how == "detach" else chain[1500]
        below = chain[:1501] if how != "detach" else chain
        above = chain[1501:] if how != "detach" else []
        old = sys.getrecursionlimit()
        sys.setrecursionlimit(1000)
        try:
            ctx.evaluations += 1
            ctx.count("deep_3000_detaches")
            try:
                start.detach()
                res = None
            except RecursionError:
                res = "RecursionError"
        finally:
            sys.setrecursionlimit(old)
        still = sum(1 for x in below if ASTNode.get_any(x.id) is x)
        lost = sum(1 for x in above if ASTNode.get_any(x.id) is not x)
        if res is not None or still or lost:
            ctx.violation("deep-tree-detach", f"detach() of a subtree 3000 levels deep: {res or 'returned'}, {still} of its nodes are still registered, {lost} nodes above it were unregistered", {"depth": 3000, "how": how})
        for x in chain:
            x.detach_self()
        del chain, n, start, below, above


def long_value_leg(ctx, U):
    """the id of a node is a function of class, origin and content - also for long property values: a node that differs
    from a live one in the middle of a long value is not its twin (no collision suffix), whoever is alive"""
    from vlib import gen as G

    P = U.P
    Leaf = U.cls[f"{P}Leaf"]
    Qty, Typed = U.module.__dict__[f"{P}Qty"], U.cls[f"{P}Typed"]
    mk_s = lambda x: Leaf(v=1, s=x)  # noqa: E731
    mk_t = lambda x: Typed(ty=x)  # noqa: E731
    for mk, A, B in ((mk_s, G.LONG_STRS[0], G.LONG_STRS[1]), (mk_s, G.LONG_STRS[1], G.LONG_STRS[2]), (mk_s, "x" * 5000 + "1" + "y" * 5000, "x" * 5000 + "2" + "y" * 5000),
                     # values of a user class whose __format__ says less than its str()
                     (mk_t, Qty(2.5, "kg"), Qty(2.5, "lb")), (mk_t, Qty(1.0, "m"), Qty(1.0, ""))):
        ctx.evaluations += 1
        ctx.count("long_values_differing_in_the_middle")
        b_alone = mk(B)
        id_alone = b_alone.id
        b_alone.detach()
        del b_alone
        collect()
        a = mk(A)
        b = mk(B)
        got = b.id
        a.detach()
        b.detach()
        if got != id_alone or a.id == got:
            ctx.violation("id-nondeterministic", "the id of a node depends on whether another node (same class and origin, a different value: a long one that differs in the middle / one whose __format__ says less than its str()) is alive", {"alone": id_alone, "next_to_the_other": got, "value": str(B)[:40]})
        del a, b


def remodel_leg(ctx, U):
    """detach() of an instance of a class that was defined again (more child fields) after its first version was used"""
    from pyoak.node import ASTNode
    from vlib.universe import remodelled_class

    old, new, leaf = remodelled_class(U, "C03")
    a, b, c, d = leaf(v=11), leaf(v=12), leaf(v=13), leaf(v=14)
    n = new(first=a, second=(b, c), third=d, v=5)
    ids = [x.id for x in (n, a, b, c, d)]
    ctx.evaluations += 1
    ctx.count("remodelled_class_detach")
    if any(ASTNode.get_any(i) is None for i in ids):
        ctx.violation("registry-vs-model", "nodes of a tree over a re-defined class are not all registered", {"class": new.__name__})
    n.detach()
    left = [i for i in ids if ASTNode.get_any(i) is not None]
    if left:
        ctx.violation("registry-vs-model", "detach() of a node whose class was defined again (more child fields) left descendants registered", {"class": new.__name__, "still_registered": len(left), "fields": ["first", "second", "third"]})


def failing_duplicate_leg(ctx, U):
    """duplicate() that fails at a nested node (a node class with an InitVar cannot be copied): the registry stays as it was"""
    from pyoak.node import NODE_REGISTRY, ASTNode

    P = U.P
    src = f"@dataclass(frozen=True)\nclass {P}Scaled({P}Expr):\n    scale: InitVar[int]\n    name: str = ''\n    leaf: {P}Expr | None = None\n\n    def __post_init__(self, scale):\n        super().__post_init__()\n"
    exec(compile("from dataclasses import InitVar\n" + src, "<c03 initvar>", "exec", dont_inherit=True), U.module.__dict__)
    Scaled, Leaf, Lst, Un = U.module.__dict__[f"{P}Scaled"], U.cls[f"{P}Leaf"], U.cls[f"{P}List"], U.cls[f"{P}Un"]
    for k in range(4):
        inner = Scaled(name="s", leaf=Leaf(v=50 + k), scale=3)
        sibs = (Un(child=Leaf(v=60 + k)), inner, Leaf(v=70 + k)) if k % 2 else (inner, Un(child=Leaf(v=60 + k)))
        top = Lst(items=sibs, root=Leaf(v=80 + k))
        alive = [x.node for x in top.dfs()] + [top]
        before = {n.id: ASTNode.get_any(n.id) is n for n in alive}
        size0 = len(NODE_REGISTRY)
        ctx.evaluations += 1
        try:
            top.duplicate()
            ctx.count("duplicate_did_not_fail")
        except Exception:  # noqa: BLE001
            ctx.count("failing_duplicate")
        gone = [type(n).__name__ for n in alive if before[n.id] and ASTNode.get_any(n.id) is not n]
        import gc

        gc.collect()
        if gone or len(NODE_REGISTRY) != size0:
            ctx.violation("registry-vs-model", "a duplicate() that raised at a nested node changed the registry (originals no longer returned / copies left behind)", {"no_longer_returned": gone, "registry_size": (size0, len(NODE_REGISTRY))})
        top.detach()


def merge(extras, counters):
    """id determinism across processes / hash seeds."""
    out = []
    glob: dict = {}
    for e in extras:
        for dg, m in (e.get("idmap") or {}).items():
            g = glob.setdefault(dg, {})
            for k, base in m.items():
                prev = g.setdefault(k, base)
                if prev != base:
                    out.append({"mechanism": "id-nondeterministic", "what": "same class/origin/content/children got different ids in different processes", "detail": {"digest": dg, "ids": [prev, base]}, "case": None, "shard": -1, "seed": None, "tier": None})
    counters["cross_process_id_keys"] = sum(len(v) for v in glob.values())
    return out
