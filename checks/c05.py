"""C05 — traversals visit exactly the descendants, in order, with exact position info.

REF: expected streams are computed from the tree *spec* by a small reference
walker; the real dfs/bfs/gather streams and the predicates' call logs are
compared with it position by position (object identity).
"""
from __future__ import annotations

import itertools
import sys

from vlib import gen as G
from vlib.spec import S, build, preorder, child_slots, spec_json
from vlib.universe import core_universe

LEVEL = "exploration"
TYPECHECK_OK = True  # every generated value conforms to its annotation: shards may run with RUNTIME_TYPE_CHECK on
RULE = (
    "cases = (tree spec, prune set, filter set, traversal kind); trees from the core universe (all child field "
    "shapes, shared objects, falsy children, deep chains, tuples of 12+); for trees with <= N non-root positions all "
    "2^n x 2^n (prune, filter) subsets of node objects are enumerated, larger trees get random subsets of density "
    "0, 1/4, 1/2, 1 and class-based predicates; a case is non-trivial when the tree has >= 2 descendant positions; "
    "distinct = distinct (tree fingerprint, prune set, filter set, kind)"
)
ASSUMPTIONS = [
    "predicates are pure functions of the offered NodeTraversalInfo",
    "reference walker (20 lines) encodes the statement: pruned nodes are offered to filter, their descendants are not visited",
]
MUST_SEE = ["gather_naming_the_root_base_class", "traversal_below_class_redefined_with_children", "gather_with_empty_class_tuple", "children_read_twice_around_caller_mutation", "children_of_slotted_instances", "traversal_after_replace_with_equal_children", "falsy_callable_predicates", "positional_predicates", "late_defined_subclass", "prune_not_filter_with_desc", "falsy_children", "shared_objects", "bottom_up_with_prune", "gather_calls", "deep_chain", "deep_3000_traversals", "abandoned_traversals", "reentrant_predicates"]
CONFIG = {
    "quick": {"shards": 16, "small_trees": 600, "exh_n": 4, "large_trees": 300, "watchdog_s": 300},
    "thorough": {"shards": 32, "small_trees": 400, "exh_n": 6, "large_trees": 250, "watchdog_s": 3000},
}


# ---------------------------------------------------------------------------
# reference walkers over positions
# ---------------------------------------------------------------------------
def kids_of(U, p, cache):
    k = cache.get(id(p))
    if k is None:
        from vlib.spec import Pos

        k = [Pos(p.path + ((fn, ix),), c, p, fn, ix, p.depth + 1) for fn, ix, c in child_slots(U, p.spec)]
        cache[id(p)] = k
    return k


def ref_dfs(U, root_pos, pruned, cache):
    """Visited positions in pre-order and post-order (descendants of pruned positions are not visited)."""
    pre, post = [], []
    # iterative post/pre order
    stack = [(root_pos, False)]
    while stack:
        p, done = stack.pop()
        if done:
            if p is not root_pos:
                post.append(p)
            continue
        if p is not root_pos:
            pre.append(p)
        stack.append((p, True))
        if p is root_pos or not pruned(p):
            for c in reversed(kids_of(U, p, cache)):
                stack.append((c, False))
    return pre, post


def ref_bfs(U, root_pos, pruned, cache):
    from collections import deque

    out = []
    q = deque(kids_of(U, root_pos, cache))
    while q:
        p = q.popleft()
        out.append(p)
        if not pruned(p):
            q.extend(kids_of(U, p, cache))
    return out


class FalsyCallable:
    """a predicate object: callable, and empty / falsy when asked for its truth value"""

    def __init__(self, fn):
        self.fn = fn

    def __call__(self, info):
        return self.fn(info)

    def __len__(self):
        return 0


def deep_under_default_limit(ctx, U):
    """dfs / bfs / gather are promised for all trees: a chain 3000 deep, built iteratively, traversed with the
    interpreter's default recursion limit (the harness' own high limit must not hide a recursive traversal)."""
    P = U.P
    node = U.cls[f"{P}Leaf"](v=1)
    chain = [node]
    for i in range(3000):
        node = U.cls[f"{P}Un"](child=node)
        chain.append(node)
    chain.reverse()  # root first
    old = sys.getrecursionlimit()
    sys.setrecursionlimit(1000)
    try:
        for name, call, exp in (
            ("dfs", lambda: [i.node for i in node.dfs()], chain[1:]),
            ("dfs_bottom_up", lambda: [i.node for i in node.dfs(bottom_up=True)], list(reversed(chain[1:]))),
            ("bfs", lambda: [i.node for i in node.bfs()], chain[1:]),
            ("gather", lambda: list(node.gather(U.cls[f"{P}Expr"])), chain[1:]),
            ("gather_exact", lambda: list(node.gather((U.cls[f"{P}Leaf"],), exact_type=True)), chain[-1:]),
        ):
            ctx.evaluations += 1
            ctx.count("deep_3000_traversals")
            try:
                got = call()
            except RecursionError:
                ctx.violation("deep-tree-recursion", f"{name} raised RecursionError on a tree 3000 levels deep", {"depth": 3000})
                continue
            if [id(x) for x in got] != [id(x) for x in exp]:
                ctx.violation(f"{name}-stream-mismatch", f"{name} wrong on a deep chain", {"depth": 3000, "got_len": len(got)})
    finally:
        sys.setrecursionlimit(old)
    node.detach()


def run_shard(ctx):
    sys.setrecursionlimit(20000)
    U = core_universe()
    from vlib.spec import Pos

    P = U.P
    from pyoak.node import ASTNode
    n_small = ctx.params["small_trees"]
    from vlib.universe import warm_up

    try:
        ctx.extra["first_use_order"] = warm_up(U, ctx.rng("warm-up"), ctx)[:6]
    except Exception as e:  # noqa: BLE001 - constructing a default instance walks the generated child enumeration
        ctx.violation("valid-construction-raises", f"constructing a valid default instance raised {type(e).__name__}: {e}", {"where": "first use of every class in a random order"})
    n_large = ctx.params["large_trees"]
    exh_n = ctx.params["exh_n"]

    for case in ctx.cases(n_small + n_large + 3):
        rng = ctx.rng(case)
        small = case < n_small
        special = case >= n_small + n_large
        if special:
            k = case - n_small - n_large
            if k == 0:
                # deep chain (the second half of this case repeats it at depth 3000 under the default recursion limit)
                s = S(f"{P}Leaf", {"v": 1})
                for i in range(200):
                    s = S(f"{P}Un", {"op": str(i % 3)}, {"child": s})
                ctx.count("deep_chain")
                deep_under_default_limit(ctx, U)
            elif k == 1:
                # wide tuple 14
                s = S(f"{P}List", {}, {"items": tuple(S(f"{P}Leaf", {"v": i}) for i in range(14)), "root": S(f"{P}Falsy", {"v": 1})})
            else:
                # falsy everywhere
                f1 = S(f"{P}Falsy", {"v": 1})
                fb = S(f"{P}FalsyB", {"v": 2}, {"c": S(f"{P}Falsy", {"v": 3})})
                s = S(f"{P}Bin", {}, {"left": fb, "right": f1})
                s = S(f"{P}Over", {}, {"left": s, "right": S(f"{P}FalsyB", {}, {"c": None}), "extra": S(f"{P}Falsy")})
        else:
            tg = G.TreeGen(
                rng,
                U,
                max_nodes=(exh_n + 2) if small else 40,
                max_depth=4 if small else 7,
                max_width=3 if small else 13,
                share=0.15 if rng.random() < 0.3 else 0.0,
                twin=0.15,
                p_origin=0.1,
                hostile=0.0,
            )
            s = tg.tree()
        try:
            root = build(U, s)
        except Exception as e:  # noqa: BLE001 - the content id is computed from the generated child enumeration
            ctx.violation("valid-construction-raises", f"constructing a well-typed tree raised {type(e).__name__}: {e}", {"tree": spec_json(s)})
            continue
        root_pos = Pos((), s, None, None, None, 0)
        cache: dict = {}
        all_pre, _ = ref_dfs(U, root_pos, lambda p: False, cache)
        n = len(all_pre)
        if small and n > exh_n:
            small = False
        # map positions -> objects
        from vlib.spec import node_at

        obj = {id(root_pos): root}
        for p in all_pre:
            par = obj[id(p.parent)]
            v = getattr(par, p.field)
            obj[id(p)] = v if p.index is None else v[p.index]
        objs = []
        seen_o = set()
        for p in all_pre:
            o = obj[id(p)]
            if id(o) not in seen_o:
                seen_o.add(id(o))
                objs.append(o)
        if len(objs) < n:
            ctx.count("shared_objects")
        if any(type(obj[id(p)]).__name__.startswith(f"{P}Falsy") for p in all_pre):
            ctx.count("falsy_children")
        tree_fp = G.shape_fingerprint(U, s)
        if case < 2 and ctx.shard == 0:
            ctx.sample({"tree": spec_json(s), "positions": n})

        def expect_tuple(p):
            return (id(obj[id(p)]), id(obj[id(p.parent)]), p.field, p.index)

        # ---- children / get_child_nodes ----
        exp_children = [obj[id(c)] for c in kids_of(U, root_pos, cache)]
        got_children = root.children if "children" not in type(root).__dataclass_fields__ else list(root.get_child_nodes())  # (a model may have a field of that name)
        ctx.evaluations += 1
        if [id(x) for x in got_children] != [id(x) for x in exp_children] or [id(x) for x in root.get_child_nodes()] != [
            id(x) for x in exp_children
        ]:
            ctx.violation("children-mismatch", "children / get_child_nodes differ from the spec's direct children", {"tree": spec_json(s)})

        # the same for every node of the tree, read twice: what the caller does to the list it was handed (a work list that is
        # popped from and extended) does not show in what the next access returns
        for p_ in [root_pos] + list(all_pre):
            o_ = obj[id(p_)]
            if "children" in type(o_).__dataclass_fields__:
                continue
            exp_ = [id(obj[id(c)]) for c in kids_of(U, p_, cache)]
            ctx.evaluations += 1
            try:
                first = o_.children
                got1 = [id(x) for x in first]
                first.reverse()
                first.append(root)
                del first[:1]
                got2 = [id(x) for x in o_.children]
            except Exception as e:  # noqa: BLE001
                ctx.violation("children-raised", f"node.children raised {type(e).__name__}: {e}"[:200], {"tree": spec_json(s), "class": type(o_).__name__})
                break
            ctx.count("children_read_twice_around_caller_mutation")
            if getattr(type(o_), "__slots__", None) is not None and not hasattr(o_, "__dict__"):
                ctx.count("children_of_slotted_instances")
            if got1 != exp_ or got2 != exp_:
                ctx.violation("children-mismatch", "node.children differs from the spec's direct children (second read after the caller edited the first list)" if got1 == exp_ else "node.children differs from the spec's direct children", {"tree": spec_json(s), "class": type(o_).__name__})
                break

        # ---- predicate sets ----
        def pred_sets():
            if small:
                ids = [id(o) for o in objs]
                subsets = []
                for r in range(len(ids) + 1):
                    subsets.extend(itertools.combinations(ids, r))
                for pr in subsets:
                    for fl in subsets:
                        yield frozenset(pr), frozenset(fl), "exh"
            else:
                ids = [id(o) for o in objs]
                yield frozenset(), frozenset(ids), "none"
                for dens_p in (0.0, 0.25, 0.5, 1.0):
                    for dens_f in (0.0, 0.25, 0.5, 1.0):
                        pr = frozenset(i for i in ids if rng.random() < dens_p)
                        fl = frozenset(i for i in ids if rng.random() < dens_f)
                        yield pr, fl, "rand"
                # class based
                classes = sorted({type(o).__name__ for o in objs})
                for cn in classes[:4]:
                    pr = frozenset(id(o) for o in objs if type(o).__name__ == cn)
                    fl = frozenset(id(o) for o in objs if type(o).__name__ != cn)
                    yield pr, fl, "class"

        def check_stream(kind, got, exp_positions, pr, fl, flog, plog, visited):
            ctx.evaluations += 1
            if n >= 2:
                ctx.fp((tree_fp, tuple(sorted(map(lambda i: idx_of[i], pr))), tuple(sorted(map(lambda i: idx_of[i], fl))), kind))
            got_t = [(id(i.node), id(i.parent), i.field.name, i.findex) for i in got]
            exp_t = [expect_tuple(p) for p in exp_positions]
            if got_t != exp_t:
                ctx.violation(
                    f"{kind}-stream-mismatch",
                    f"{kind} yielded a different stream than the reference walker",
                    {
                        "tree": spec_json(s),
                        "prune": sorted(idx_of[i] for i in pr),
                        "filter": sorted(idx_of[i] for i in fl),
                        "got": [(idx_of.get(a, "?"), idx_of.get(b, "?"), c, d) for a, b, c, d in got_t],
                        "expected": [(idx_of.get(a, "?"), idx_of.get(b, "?"), c, d) for a, b, c, d in exp_t],
                    },
                )
                return
            # position info is exact
            for i in got:
                v = getattr(i.parent, i.field.name)
                tgt = v if i.findex is None else v[i.findex]
                if tgt is not i.node or i.field is not type(i.parent).__dataclass_fields__[i.field.name] or i.node is root:
                    ctx.violation(f"{kind}-bad-info", "yielded info does not point at the node", {"tree": spec_json(s)})
                    return
            # call logs: every visited position offered to filter and prune exactly once, nothing else
            vis_t = sorted(expect_tuple(p) for p in visited)
            if flog is not None and sorted(flog) != vis_t:
                ctx.violation(
                    f"{kind}-filter-log",
                    "filter was not offered exactly the visited positions (pruned ones included, their descendants excluded)",
                    {"tree": spec_json(s), "prune": sorted(idx_of[i] for i in pr), "offered": len(flog), "visited": len(vis_t)},
                )
            if plog is not None and sorted(plog) != vis_t:
                ctx.violation(
                    f"{kind}-prune-log",
                    "prune was not offered exactly the visited positions",
                    {"tree": spec_json(s), "prune": sorted(idx_of[i] for i in pr), "offered": len(plog), "visited": len(vis_t)},
                )

        idx_of = {id(root): "root"}
        for k_, o in enumerate(objs):
            idx_of[id(o)] = k_

        # hostile predicates: one that raises part-way (the traversal is abandoned), one that traverses / compares
        # inside the predicate (re-entrancy); the following ordinary traversals must be unaffected
        if n >= 2 and rng.random() < 0.5:
            class _Stop(Exception):
                pass

            cnt = [0]
            lim = rng.randint(1, n)

            def raising(info):
                cnt[0] += 1
                if cnt[0] >= lim:
                    raise _Stop()
                return True

            for make in (lambda: root.dfs(filter=raising), lambda: root.dfs(prune=lambda i: not raising(i)), lambda: root.gather(ASTNode, extra_filter=raising), lambda: root.bfs(filter=raising)):
                cnt[0] = 0
                try:
                    list(make())
                except _Stop:
                    ctx.count("abandoned_traversals")

            # generators abandoned after a few items (never exhausted, never closed explicitly)
            for make in (lambda: root.dfs(), lambda: root.bfs(), lambda: root.gather(ASTNode), lambda: root.dfs(bottom_up=True)):
                g = make()
                for _ in range(rng.randint(0, 2)):
                    next(g, None)
                del g
                ctx.count("abandoned_traversals")

            def reentrant(info):
                list(info.node.dfs())
                list(info.node.gather(ASTNode))
                return info.node == info.node

            got = list(root.dfs(filter=reentrant))
            ctx.evaluations += 1
            ctx.count("reentrant_predicates")
            if [(id(i.node), id(i.parent), i.field.name, i.findex) for i in got] != [expect_tuple(p) for p in all_pre]:
                ctx.violation("dfs-reentrant", "dfs with a predicate that itself traverses / compares nodes yielded a wrong stream", {"tree": spec_json(s)})
            got = list(root.gather(ASTNode, extra_filter=reentrant))
            if [id(x) for x in got] != [id(obj[id(p)]) for p in all_pre]:
                ctx.violation("gather-reentrant", "gather with a re-entrant predicate yielded a wrong stream", {"tree": spec_json(s)})
        for pr, fl, how in pred_sets():
            flog: list = []
            plog: list = []

            def f_filter(info, _fl=fl, _log=flog):
                _log.append((id(info.node), id(info.parent), getattr(info.field, "name", None), info.findex))
                return id(info.node) in _fl

            def f_prune(info, _pr=pr, _log=plog):
                _log.append((id(info.node), id(info.parent), getattr(info.field, "name", None), info.findex))
                return id(info.node) in _pr

            if rng.random() < 0.25:
                # predicates given as callable objects that are falsy in a boolean context (an empty selector)
                f_filter, f_prune = FalsyCallable(f_filter), FalsyCallable(f_prune)
                ctx.count("falsy_callable_predicates")

            pruned = lambda p, _pr=pr: id(obj[id(p)]) in _pr  # noqa: E731
            keep = lambda p, _fl=fl: id(obj[id(p)]) in _fl  # noqa: E731
            pre, post = ref_dfs(U, root_pos, pruned, cache)
            lvl = ref_bfs(U, root_pos, pruned, cache)
            if any(pruned(p) and not keep(p) and kids_of(U, p, cache) for p in pre):
                ctx.count("prune_not_filter_with_desc")
            if pr:
                ctx.count("bottom_up_with_prune")
            # dfs top-down
            del flog[:], plog[:]
            positional = rng.random() < 0.3  # the documented parameter order (prune, filter, bottom_up), given by position
            if positional:
                ctx.count("positional_predicates")
            got = list(root.dfs(f_prune, f_filter) if positional else root.dfs(prune=f_prune, filter=f_filter))
            check_stream("dfs", got, [p for p in pre if keep(p)], pr, fl, list(flog), list(plog), pre)
            # dfs bottom-up
            del flog[:], plog[:]
            got = list(root.dfs(f_prune, f_filter, True) if positional else root.dfs(prune=f_prune, filter=f_filter, bottom_up=True))
            check_stream("dfs_bottom_up", got, [p for p in post if keep(p)], pr, fl, list(flog), list(plog), pre)
            # bfs
            del flog[:], plog[:]
            got = list(root.bfs(f_prune, f_filter) if positional else root.bfs(prune=f_prune, filter=f_filter))
            check_stream("bfs", got, [p for p in lvl if keep(p)], pr, fl, list(flog), list(plog), lvl)
            ctx.count(f"predsets_{how}")
            if how == "exh" and n > 3 and rng.random() > 0.05:
                continue
            # None predicates
            if how in ("none",):
                got = list(root.dfs())
                check_stream("dfs", got, all_pre, frozenset(), frozenset(id(o) for o in objs), None, None, all_pre)
            # gather
            classes = sorted({type(o).__name__ for o in objs}) + [f"{P}Expr", f"{P}Leaf", "ASTNode"]
            for _ in range(3):
                k = rng.randint(1, 2) if rng.random() < 0.9 else 0  # (an empty tuple of classes: instances of no class)
                if k == 0:
                    ctx.count("gather_with_empty_class_tuple")
                cns = tuple(rng.sample(classes, min(k, len(classes))))
                clss = tuple(ASTNode if c == "ASTNode" else U.cls[c] for c in cns)
                if ASTNode in clss:
                    ctx.count("gather_naming_the_root_base_class")
                exact = rng.random() < 0.5
                use_extra = rng.random() < 0.5
                use_prune = rng.random() < 0.7
                del flog[:], plog[:]
                arg = clss if (len(clss) != 1 or rng.random() < 0.5) else clss[0]
                got = list(
                    root.gather(arg, exact_type=exact, extra_filter=f_filter if use_extra else None, prune=f_prune if use_prune else None)
                )
                vis = pre if use_prune else all_pre

                def cls_ok(p):
                    o = obj[id(p)]
                    return (type(o) in clss) if exact else isinstance(o, clss)

                exp = [obj[id(p)] for p in vis if cls_ok(p) and (not use_extra or keep(p))]
                ctx.evaluations += 1
                ctx.count("gather_calls")
                if [id(x) for x in got] != [id(x) for x in exp]:
                    ctx.violation(
                        "gather-mismatch",
                        "gather differs from the filtered pre-order stream",
                        {
                            "tree": spec_json(s),
                            "classes": cns,
                            "exact": exact,
                            "extra": use_extra,
                            "prune": sorted(idx_of[i] for i in pr) if use_prune else None,
                            "filter": sorted(idx_of[i] for i in fl) if use_extra else None,
                            "got": [idx_of.get(id(x), "?") for x in got],
                            "expected": [idx_of.get(id(x), "?") for x in exp],
                        },
                    )
        # history: the tree was traversed; its root is replaced by a node holding freshly built equal children (the old root is
        # still referenced, the new one takes over its id): traversing the new root yields the new objects at their positions
        if case % 4 == 1:
            kw = {}
            for f in U.child_fields(type(root).__name__):
                if not f.init:
                    continue
                v = getattr(root, f.name)
                kw[f.name] = None if v is None else tuple(c.duplicate() for c in v) if isinstance(v, tuple) else v.duplicate()
            if any(v for v in kw.values() if v is not None and v != ()):
                new_root = root.replace(**kw)
                ctx.evaluations += 1
                ctx.count("traversal_after_replace_with_equal_children")
                exp_first = []
                for f in U.child_fields(type(new_root).__name__):
                    v = getattr(new_root, f.name)
                    if v is None:
                        continue
                    exp_first.extend((c, new_root, f.name, i) for i, c in enumerate(v)) if isinstance(v, tuple) else exp_first.append((v, new_root, f.name, None))
                got_first = [(i.node, i.parent, i.field.name, i.findex) for i in new_root.bfs()][: len(exp_first)]
                if len(got_first) != len(exp_first) or any(g[0] is not e[0] or g[1] is not e[1] or g[2] != e[2] or g[3] != e[3] for g, e in zip(got_first, exp_first)):
                    ctx.violation("position-info", "after replace() with freshly built equal children (same id as the node still referenced) the traversal does not yield the new node's own children", {"tree": spec_json(s)})
                if any(getattr(i.parent, i.field.name) is not i.node if i.findex is None else getattr(i.parent, i.field.name)[i.findex] is not i.node for i in new_root.dfs()):
                    ctx.violation("position-info", "a yielded (node, parent, field, index) does not hold: parent.field[index] is another object", {"tree": spec_json(s), "history": "replace() with equal children"})
                new_root.detach()
        ctx.count("trees")
        ctx.count("trees_exhaustive" if small else "trees_sampled")

    # ---- a subclass defined after gather() was first asked for its base classes ----
    from pyoak.node import ASTNode as _AN

    Leaf, Lst = U.cls[f"{P}Leaf"], U.cls[f"{P}List"]
    t0 = Lst(items=(Leaf(v=1), Leaf(v=2)))
    for cls_ in (Leaf, U.cls[f"{P}Expr"], _AN, (Leaf, Lst)):
        list(t0.gather(cls_))
    src = f"@dataclass(frozen=True)\nclass {P}Late5({P}Leaf):\n    extra: int = 0\n"
    exec(compile(src, "<c05 late>", "exec", dont_inherit=True), U.module.__dict__)
    late = U.module.__dict__[f"{P}Late5"]
    ln = late(v=3)
    t1 = Lst(items=(Leaf(v=1), ln, Leaf(v=2)))
    ctx.count("late_defined_subclass")
    for cls_, exact, exp in ((Leaf, False, [t1.items[0], ln, t1.items[2]]), (U.cls[f"{P}Expr"], False, [*t1.items]), (_AN, False, [*t1.items]), ((Leaf, Lst), False, [*t1.items]), (late, False, [ln]), (Leaf, True, [t1.items[0], t1.items[2]]), (late, True, [ln])):
        ctx.evaluations += 1
        got = list(t1.gather(cls_, exact_type=exact))
        if [id(x) for x in got] != [id(x) for x in exp]:
            ctx.violation("gather-late-subclass", "gather misses / misplaces an instance of a subclass defined after gather was first used", {"classes": str(cls_), "exact_type": exact, "got": len(got), "expected": len(exp)})


_c05_run_shard = run_shard


def run_shard(ctx):  # noqa: F811 - the main loop, then a leg that needs a history of class definitions
    _c05_run_shard(ctx)
    if ctx.only_case is not None:
        return
    from vlib.universe import remodelled_class

    U = core_universe()
    P = U.P
    # a class without child fields was in use; a class with child fields is defined under the same name (a re-run model
    # cell) and its instances are traversed like any other node
    for tag, leaf_first in (("C05a", True), ("C05b", False)):
        old, new, leaf = remodelled_class(U, tag, leaf_first=leaf_first)
        inner = new(first=leaf(v=1), v=1, second=(leaf(v=2), U.cls[f"{P}Un"](child=leaf(v=3))), third=leaf(v=4))
        root = U.cls[f"{P}List"](items=(leaf(v=0), inner, leaf(v=5)))
        exp = [0, None, 1, 2, None, 3, 4, 5]
        for name, call in (("dfs", lambda: [getattr(i.node, "v", None) if isinstance(i.node, leaf) else None for i in root.dfs()]), ("gather", lambda: [x.v for x in root.gather(leaf)]), ("bfs", lambda: sorted(x.node.v for x in root.bfs() if isinstance(x.node, leaf)))):
            ctx.evaluations += 1
            ctx.count("traversal_below_class_redefined_with_children")
            got = call()
            want = exp if name == "dfs" else [0, 1, 2, 3, 4, 5]
            if got != want:
                ctx.violation(f"{name}-stream-mismatch", f"{name} below an instance of a class that was defined again under its name (now with child fields) misses descendants", {"got": got, "expected": want, "first_definition_without_children": leaf_first})
        root.detach()
