"""Fresh-interpreter leg of C04: nothing of the original tree is alive here. Rebuilds the
universe (classes only), deserializes every payload, dumps the result and compares it
with the dump recorded by the producing process."""
from __future__ import annotations

import base64
import json
import sys


def main(path: str) -> None:
    sys.setrecursionlimit(20000)
    from checks.c04 import from_fmt, sharing_partition, singleton_check
    from vlib.spec import dump_node, jsonable
    from vlib.universe import core_universe

    U = core_universe()
    from vlib import origins as _O

    _O.variant_source_class()  # the model's own Source / Origin subclasses must exist (be registered by name) in the reading process too
    _O.span_origin_class()
    _O.tok_position_class()
    from pyoak.node import NODE_REGISTRY, ASTNode
    from pyoak.origin import SOURCE_OPTIMIZED_SERIALIZATION_KEY, Source
    from pyoak.serialize import SerializationOption

    jobs = json.load(open(path))
    violations = []
    n = 0
    for j in jobs:
        n += 1
        raw = base64.b64decode(j["payload"])
        payload = raw if j["is_bytes"] else raw.decode("utf-8")
        opts = {}
        for o in j["opts"]:
            if o == SerializationOption.SORT_KEYS.value:
                opts[SerializationOption.SORT_KEYS] = True
            elif o == SOURCE_OPTIMIZED_SERIALIZATION_KEY:
                opts[SOURCE_OPTIMIZED_SERIALIZATION_KEY] = True
        if len(NODE_REGISTRY) != 0:
            for v in list(NODE_REGISTRY.values()):
                v.detach_self()
        try:
            if j["sources"] is not None:
                # index-based sources: load the separately serialized sources first (fresh source registry)
                Source.clear_registry()
                Source.load_serialized_sources(j["sources"])
            res = from_fmt(U.cls[j["cls"]], payload, j["fmt"], opts)
        except Exception as e:  # noqa: BLE001
            import traceback

            violations.append({"mechanism": "deserialize-raised", "what": f"{type(e).__name__}: {e}"[:300], "detail": dict(j["detail"], tb=traceback.format_exc()[-500:])})
            continue
        got = jsonable(dump_node(U, res))
        if got != j["dump"]:
            violations.append({"mechanism": "dump-differs", "what": "the tree deserialized in a fresh process differs from the original", "detail": dict(j["detail"], got=str(got)[:700], exp=str(j["dump"])[:700])})
        elif jsonable(sharing_partition(U, res)) != j["share"]:
            violations.append({"mechanism": "sharing-lost", "what": "sharing partition differs", "detail": j["detail"]})
        else:
            err = singleton_check(U, res)
            if err:
                violations.append({"mechanism": "singletons", "what": err, "detail": j["detail"]})
            from vlib.spec import real_preorder

            for path_, node in real_preorder(U, res):
                if ASTNode.get_any(node.id) is not node:
                    violations.append({"mechanism": "not-registered", "what": "a deserialized node is not registered under its id", "detail": j["detail"]})
                    break
        res.detach()
        del res
    print(json.dumps({"n": n, "violations": violations}))


if __name__ == "__main__":
    main(sys.argv[1])
