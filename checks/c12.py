"""C12 — child and property accessors return exactly what the class definition dictates.

REF over generated programs x configurations: class hierarchies are generated as
specs, rendered to source and exec-ed once per order-of-first-use configuration;
every accessor with every flag combination is compared with the order / skip rules
computed from the spec (values by identity, fields by being the class's own Field).
"""
from __future__ import annotations

import itertools
import sys

from vlib import gen as G
from vlib.universe import CS, FS, Universe

LEVEL = "exploration"
TYPECHECK_OK = True  # generated values conform to their annotations: some shards run with RUNTIME_TYPE_CHECK on (first use of every class included)
RULE = (
    "programs = generated hierarchies (1-3 level chains and a two-base diamond, 0-6 fields per level drawn from child shapes "
    "one/optional/union/variadic tuple/fixed tuple and property kinds, defaults, init=False, compare=False, both, kw_only, "
    "slots, overrides that keep or change flags); configurations = every permutation of which class is first "
    "instantiated/queried x choice of first accessor, each in a freshly exec-ed universe; inputs = instances with falsy "
    "children, empty tuples, absent optionals; all 2^5 x 2 flag combinations, keyword and positional; non-trivial = class "
    "with >= 2 fields; distinct = distinct (hierarchy source, order, first accessor)"
)
ASSUMPTIONS = ["dataclass field merge order computed from the spec is cross-checked against dataclasses.fields on every class"]
MUST_SEE = ["foreign_node_class_named_like_a_module_level_enum", "derived_init_false_properties", "returned_sequence_mutated_by_caller", "same_named_class_pairs", "equal_twin_with_reused_id", "explicit_hash_flag", "init_false_and_compare_false", "subclass_first", "base_first", "falsy_children", "empty_tuples", "overrides", "positional_calls", "multiple_inheritance", "accessor_calls"]
CONFIG = {
    "quick": {"shards": 16, "hierarchies": 14, "watchdog_s": 300},
    "thorough": {"shards": 32, "hierarchies": 150, "watchdog_s": 3000},
}

PRELUDE_EXTRA = """
class _Handle:
    # a user's own value class with identity equality (two handles are equal only if they are one object)
    def __copy__(self):
        return _Handle()


_HANDLE = _Handle()


class {P}Color(enum.Enum):
    RED = 1
    GREEN = "g"

@dataclass(frozen=True)
class {P}N0(ASTNode):
    v: int = 0

@dataclass(frozen=True)
class {P}N1({P}N0):
    w: str = ""

@dataclass(frozen=True)
class {P}Fz(ASTNode):
    v: int = 0
    def __len__(self):
        return 0

@dataclass(frozen=True)
class {P}Fb({P}N0):
    def __bool__(self):
        return False

@dataclass(frozen=True)
class {P}It(ASTNode):
    # a node that can be iterated / measured / asked for membership like a collection of its kids
    v: int = 0
    kids: tuple[{P}N0, ...] = ()
    def __iter__(self):
        return iter(self.kids)
    def __len__(self):
        return len(self.kids)
    def __contains__(self, x):
        return any(x is k for k in self.kids)

@dataclass(frozen=True)
class {P}Dv(ASTNode):
    # properties derived in __post_init__ (declared init=False with a placeholder default)
    a: int = 1
    twice: int = field(default=0, init=False)
    label: str = field(default="", init=False, compare=False)
    def __post_init__(self):
        object.__setattr__(self, "twice", self.a * 2)
        object.__setattr__(self, "label", f"a={self.a}")
        super().__post_init__()

{P}Ref = NewType("{P}Ref", {P}N0)
{P}RefSeq = NewType("{P}RefSeq", tuple[{P}Ref, ...])
{P}RefOpt = NewType("{P}RefOpt", Optional[{P}Ref])
"""


def child_pool(P):
    N0, N1, Fz = f"{P}N0", f"{P}N1", f"{P}Fz"
    return [
        ("one", N0, (N0,)),
        ("opt", f"{N0} | None", (N0,)),
        ("opt", f"Optional[{N1}]", (N1,)),
        ("opt", f"Union[{N0}, {Fz}, None]", (N0, Fz)),
        ("opt", f"{Fz} | None", (Fz,)),
        ("tuple", f"tuple[{N0}, ...]", (N0,)),
        ("tuple", f"Tuple[{N0} | {Fz}, ...]", (N0, Fz)),
        ("fixed2", f"tuple[{N0}, {N1}]", (N0, N1)),
        ("one", f"{P}It", (f"{P}It",)),
        ("opt", f"{P}It | None", (f"{P}It",)),
        ("tuple", f"tuple[{P}It | {N0}, ...]", (f"{P}It", N0)),
        # typing.Annotated around the annotation, also around a quoted reference
        ("opt", f'Annotated["{N0} | None", "doc"]', (N0,)),
        ("tuple", f'Annotated[tuple[{N0}, ...], "doc", 5]', (N0,)),
        ("one", f'Annotated["{N0}", "doc"]', (N0,)),
        ("opt", f'Annotated[Optional["{N1}"], "doc"]', (N1,)),
        # NewType aliases: of a node class, and of a generic over such an alias
        ("one", f"{P}Ref", (N0,)),
        ("tuple", f"{P}RefSeq", (N0,)),
        ("opt", f"{P}RefOpt", (N0,)),
        ("tuple", f"tuple[{P}Ref, ...]", (N0,)),
    ]


PROP_POOL = [
    ("int", "int", "0"), ("str", "str", '""'), ("bool", "bool", "False"), ("float", "float", "0.0"), ("ostr", "str | None", "None"),
    ("tint", "tuple[int, ...]", "()"), ("lit", 'Literal["a", "b", 1]', '"a"'),
    ("handle", "Any", "_HANDLE"), ("handle", "Any", "_HANDLE"),  # an opaque handle (identity equality): accessors hand out the object itself
]
NAMES = ["a", "b", "c", "d", "e", "f", "g", "h", "child", "items", "root", "zz", "aa", "m", "k", "_hidden", "id_", "value"]


def gen_hierarchy(rng, P):
    """Returns list[CS] (only the generated classes; helper node classes live in the prelude)."""
    shape = rng.choice(["chain1", "chain2", "chain2", "chain3", "chain3", "diamond"])
    names = [f"{P}A", f"{P}B", f"{P}C"]
    used: dict[str, FS] = {}
    pool_c = child_pool(P)

    def new_field(level_used):
        for _ in range(20):
            nm = rng.choice(NAMES)
            if nm not in level_used:
                break
        else:
            return None
        override = nm in used
        if override:
            old = used[nm]
            role = old.role
        else:
            role = "child" if rng.random() < 0.45 else "prop"
        init = rng.random() > 0.2
        compare = rng.random() > 0.25
        kw_only = rng.random() < 0.2
        hash_ = rng.choice([True, False]) if rng.random() < 0.25 else None  # field(hash=...) is no part of "comparable"
        repr_ = rng.random() > 0.15
        if role == "child":
            if override:
                cands = [c for c in pool_c if (c[0] == old.shape) or rng.random() < 0.2]
                shape_, ann, types = rng.choice(cands or pool_c)
            else:
                shape_, ann, types = rng.choice(pool_c)
            default = {"one": None, "opt": "None", "tuple": "()", "fixed2": None}[shape_]
            if default is None:
                # required: keep dataclass ordering legal
                kw_only = True
                init = True
            if shape_ in ("opt", "tuple") and rng.random() < 0.08:
                pass
            if rng.random() < 0.25:
                ann = repr(ann)  # string annotation mixed with concrete ones (resolved later by the library)
            f = FS(nm, "child", ann, shape_, types, compare=compare, init=init, kw_only=kw_only, default=default, hash_=hash_, repr_=repr_)
        else:
            kind, ann, default = rng.choice(PROP_POOL)
            if kind == "lit" and rng.random() < 0.5:
                kind, ann, default = "enum", f"{P}Color", f"{P}Color.RED"
            if rng.random() < 0.2 and kind != "enum":
                ann = repr(ann)
            f = FS(nm, "prop", ann, kind, (), compare=compare, init=init, kw_only=kw_only, default=default, hash_=hash_, repr_=repr_)
        return f

    specs = []
    slots_on_prev = False
    if shape == "diamond":
        chains = [(names[0], ("ASTNode",)), (names[1], ("ASTNode",)), (names[2], (names[0], names[1]))]
    else:
        k = int(shape[-1])
        chains = [(names[i], ("ASTNode",) if i == 0 else (names[i - 1],)) for i in range(k)]
    for cname, bases in chains:
        nf = rng.randint(0, 6)
        if shape == "diamond" and cname == names[2]:
            nf = rng.choice([0, 0, 1, 2])
        fields = []
        level_used = set()
        for _ in range(nf):
            f = new_field(level_used)
            if f is None:
                continue
            if shape == "diamond" and f.name in used:
                continue  # no overrides across the two independent bases
            level_used.add(f.name)
            fields.append(f)
        for f in fields:
            used[f.name] = f
        # a non-slotted dataclass below a slotted one loses the defaults of init=False fields
        # (CPython dataclasses behaviour, not pyoak's): slots are switched on monotonically down a chain
        slots_on = shape != "diamond" and (slots_on_prev or rng.random() < 0.15)
        slots_on_prev = slots_on
        specs.append(CS(cname, bases, fields, slots=slots_on))
    return specs


def make_instance(rng, U, cname):
    P = U.P
    kw = {}
    meta = {}
    for f in U.all_fields(cname):
        if f.name in ("id", "content_id", "origin") or not f.init:
            continue
        if f.role == "child":
            def mk(types):
                t = rng.choice(types)
                if t.endswith("N0") and rng.random() < 0.3:
                    t = t[:-2] + "Fb"
                if t.endswith("It"):
                    return U.module.__dict__[t](v=rng.randrange(5), kids=tuple(U.module.__dict__[t[:-2] + "N0"](v=10 + i) for i in range(rng.choice([0, 1, 2]))))
                return U.module.__dict__[t](v=rng.randrange(5))

            if f.shape == "one":
                kw[f.name] = mk(f.types)
            elif f.shape == "opt":
                if f.default is None or rng.random() < 0.6:
                    kw[f.name] = mk(f.types) if rng.random() < 0.75 else None
            elif f.shape == "tuple":
                if rng.random() < 0.8:
                    kw[f.name] = tuple(mk(f.types) for _ in range(rng.choice([0, 0, 1, 2, 3])))
            elif f.shape == "fixed2":
                kw[f.name] = (mk(f.types[:1]), mk(f.types[1:]))
        else:
            if f.default is None or rng.random() < 0.6:
                kw[f.name] = G.gen_value(rng, U, f, hostile=0.0)
    return U.cls[cname](**kw)


ACCESSORS = ["get_properties", "get_child_nodes", "get_child_nodes_with_field", "iter_child_fields", "children", "get_property_fields", "get_child_fields", "instantiate"]


def check_instance(ctx, U, cname, inst, detail, rng, full: bool):
    import dataclasses

    C = U.cls[cname]
    fields = U.all_fields(cname)
    dcf = C.__dataclass_fields__
    # cross-check merge order against dataclasses.fields
    if [f.name for f in dataclasses.fields(C)] != [f.name for f in fields]:
        raise AssertionError(f"harness field order wrong for {cname}: {[f.name for f in dataclasses.fields(C)]} vs {[f.name for f in fields]}")
    props = [f for f in fields if f.role == "prop"]
    childs = [f for f in fields if f.role == "child"]

    def bad(mech, what, **d):
        d.update(detail)
        d["class"] = cname
        ctx.violation(mech, what, d)

    def exp_props(si, so, sc, snc, sni, sort):
        fs = sorted(props, key=lambda f: f.name) if sort else props
        out = []
        for f in fs:
            if f.name == "id":
                if si:
                    continue
            elif f.name == "origin":
                if so:
                    continue
            elif f.name == "content_id":
                if sc:
                    continue
            else:
                if (not f.compare and snc) or (not f.init and sni):
                    continue
            out.append(f)
        return out

    combos = list(itertools.product([False, True], repeat=5))
    if not full:
        combos = rng.sample(combos, 8) + [(True, True, True, False, False), (False, False, False, True, True)]
    for si, so, sc, snc, sni in combos:
        for sort in (False, True):
            exp = exp_props(si, so, sc, snc, sni, sort)
            positional = rng.random() < 0.5
            if positional:
                ctx.count("positional_calls")
                got = list(inst.get_properties(si, so, sc, snc, sni, sort_keys=sort))
            else:
                got = list(inst.get_properties(skip_id=si, skip_origin=so, skip_content_id=sc, skip_non_compare=snc, skip_non_init=sni, sort_keys=sort))
            ctx.evaluations += 1
            ctx.count("accessor_calls")
            ok = len(got) == len(exp) and all(g[1] is dcf[e.name] and g[0] is getattr(inst, e.name) for g, e in zip(got, exp))
            if not ok:
                bad(
                    "get_properties",
                    "get_properties differs from the class definition",
                    flags=dict(skip_id=si, skip_origin=so, skip_content_id=sc, skip_non_compare=snc, skip_non_init=sni, sort_keys=sort, positional=positional),
                    got=[g[1].name for g in got],
                    exp=[e.name for e in exp],
                    field_identity_ok=all(g[1] is dcf.get(g[1].name) for g in got),
                )
                return
        # static variant (no sort_keys)
        exp = exp_props(si, so, sc, snc, sni, False)
        if rng.random() < 0.5:
            gotf = list(C.get_property_fields(si, so, sc, snc, sni))
        else:
            gotf = list(C.get_property_fields(skip_id=si, skip_origin=so, skip_content_id=sc, skip_non_compare=snc, skip_non_init=sni))
        ctx.count("accessor_calls")
        if [f.name for f in gotf] != [e.name for e in exp] or any(g is not dcf[g.name] for g in gotf):
            special = {f.name for f in gotf} ^ {e.name for e in exp}
            mech = "get_property_fields-special-flags" if special and special <= {"id", "content_id", "origin"} else "get_property_fields"
            bad(
                mech,
                "get_property_fields differs from the class definition",
                flags=dict(skip_id=si, skip_origin=so, skip_content_id=sc, skip_non_compare=snc, skip_non_init=sni),
                got=[f.name for f in gotf],
                exp=[e.name for e in exp],
            )
            return
    # children: random order of the sort flag and of the three accessors, so that the very first call of
    # each generated accessor on a class is sometimes a sorted one - and is itself checked
    sorts = [False, True]
    rng.shuffle(sorts)
    acc_order = ["with_field", "nodes", "iter"]
    rng.shuffle(acc_order)
    for sort in sorts:
        fs = sorted(childs, key=lambda f: f.name) if sort else childs
        exp_nodes = []
        exp_iter = []
        for f in fs:
            v = getattr(inst, f.name)
            exp_iter.append((v, f))
            if v is None:
                continue
            if isinstance(v, tuple):
                if not v:
                    ctx.count("empty_tuples")
                for i, c in enumerate(v):
                    exp_nodes.append((c, f, i))
            else:
                exp_nodes.append((v, f, None))
        if any(type(n).__name__.endswith(("Fz", "Fb")) for n, _, _ in exp_nodes):
            ctx.count("falsy_children")
        ctx.count("accessor_calls", 3)
        for acc in acc_order:
            if acc == "with_field":
                got = list(inst.get_child_nodes_with_field(sort_keys=sort))
                if len(got) != len(exp_nodes) or any(g[0] is not e[0] or g[1] is not dcf[e[1].name] or g[2] != e[2] for g, e in zip(got, exp_nodes)):
                    bad("get_child_nodes_with_field", "get_child_nodes_with_field differs", sort_keys=sort, got=[(g[1].name, g[2]) for g in got], exp=[(e[1].name, e[2]) for e in exp_nodes])
                    return
            elif acc == "nodes":
                got = list(inst.get_child_nodes(sort_keys=sort))
                if [id(x) for x in got] != [id(e[0]) for e in exp_nodes]:
                    bad("get_child_nodes", "get_child_nodes differs", sort_keys=sort)
                    return
            else:
                got = list(inst.iter_child_fields(sort_keys=sort))
                if len(got) != len(exp_iter) or any(g[0] is not e[0] or g[1] is not dcf[e[1].name] for g, e in zip(got, exp_iter)):
                    bad("iter_child_fields", "iter_child_fields differs", sort_keys=sort, got=[g[1].name for g in got], exp=[e[1].name for e in exp_iter])
                    return
        if not sort:
            ch = inst.children
            if [id(x) for x in ch] != [id(e[0]) for e in exp_nodes]:
                bad("children", "children differs")
                return
            # the caller may do what it likes with the sequence it was given: later answers are not affected
            if isinstance(ch, list):
                ch.append(inst)
                ch.reverse()
                ctx.count("returned_sequence_mutated_by_caller")
                if [id(x) for x in inst.children] != [id(e[0]) for e in exp_nodes]:
                    bad("children", "children differs after the caller changed the list returned by an earlier call")
                    return
    cf = C.get_child_fields()
    if [f.name for f in cf] != [f.name for f in childs] or any(f is not dcf[f.name] for f in cf):
        bad("get_child_fields", "get_child_fields differs", got=[f.name for f in cf], exp=[f.name for f in childs])
    for f, ti in cf.items():
        shape = next(x.shape for x in childs if x.name == f.name)
        if bool(ti.is_collection) != (shape in ("tuple", "fixed2")):
            bad("get_child_fields", "is_collection flag wrong", field=f.name)
    d = inst.to_properties_dict()
    expd = [f.name for f in exp_props(True, True, True, False, False, False)]
    if list(d) != expd or any(d[k] is not getattr(inst, k) for k in expd):
        bad("to_properties_dict", "to_properties_dict differs", got=list(d), exp=expd)


def twin_with_reused_id(ctx, U, cname, inst, detail, rng):
    """History: the accessors were used on `inst`; inst leaves the registry; an equal node with the same id but
    other child objects is created: every accessor must answer with the twin's own objects."""
    import dataclasses

    kw = {}
    for f in U.all_fields(cname):
        if f.role != "child" or not f.init:
            continue
        v = getattr(inst, f.name)
        kw[f.name] = None if v is None else tuple(c.duplicate() for c in v) if isinstance(v, tuple) else v.duplicate()
    if not any(v for v in kw.values() if v is not None):
        return
    old_id = inst.id
    inst.detach()
    twin = dataclasses.replace(inst, **kw)
    if twin.id == old_id and twin == inst:
        ctx.count("equal_twin_with_reused_id")
    check_instance(ctx, U, cname, twin, dict(detail, history="equal twin with the id of a detached node, other child objects"), rng, full=False)


def run_shard(ctx):
    sys.setrecursionlimit(20000)
    serial = 0
    for case in ctx.cases(ctx.params["hierarchies"]):
        rng = ctx.rng(case)
        grng = ctx.rng(case, "gen")
        # the hierarchy is generated once with a placeholder prefix, then re-rendered per configuration
        state = grng.getstate()
        probe = gen_hierarchy(grng, "X")
        cls_names = [c.name[1:] for c in probe]
        n = len(probe)
        perms = list(itertools.permutations(range(n)))
        configs = []
        for perm in perms:
            for _ in range(2 if n > 1 else 4):
                configs.append((perm, rng.choice(ACCESSORS)))
        for ci, (perm, first_acc) in enumerate(configs):
            serial += 1
            P = f"Q{ctx.shard}x{case}x{ci}_"
            grng.setstate(state)
            specs = gen_hierarchy(grng, P)
            U = Universe(f"verif_c12_{P}", specs, prelude_extra=PRELUDE_EXTRA.replace("{P}", P), postponed=(ci % 2 == 1))
            if ci % 4 == 3 or (ci % 4 == 0 and case % 2):
                # elsewhere in the process (a plug-in, another grammar, a function scope) a NODE class bears the simple name
                # that is an enum in this module: names in this module's annotations mean this module's objects
                ctx.count("foreign_node_class_named_like_a_module_level_enum")
                exec(compile(f"from dataclasses import dataclass\nfrom pyoak.node import ASTNode\n\n\n@dataclass(frozen=True)\nclass {P}Color(ASTNode):\n    v: int = 0\n", "<c12 foreign namespace>", "exec", dont_inherit=True), {"__name__": f"verif_c12_foreign_{P}"})
            try:
                U.exec()
            except Exception as e:  # noqa: BLE001
                ctx.count("universe_exec_failed")
                ctx.extra.setdefault("exec_errors", []).append(f"{type(e).__name__}: {e}"[:200])
                break
            U.P = P
            names = [s.name for s in specs]
            detail = {"source": "\n".join(Universe.render_class(s) for s in specs), "order": [names[i] for i in perm], "first_accessor": first_acc, "postponed": ci % 2 == 1}
            if ci == 0 and case == 0 and ctx.shard == 0:
                ctx.sample(detail)
            if any(not f.init and not f.compare and f.role == "prop" for s in specs for f in s.fields):
                ctx.count("init_false_and_compare_false")
            if any(f.hash_ is not None and f.hash_ != f.compare for s in specs for f in s.fields):
                ctx.count("explicit_hash_flag")
            if any(len(s.bases) > 1 for s in specs):
                ctx.count("multiple_inheritance")
            ov = set()
            seen = set()
            for s in specs:
                for f in s.fields:
                    if f.name in seen:
                        ov.add(f.name)
                    seen.add(f.name)
            if ov:
                ctx.count("overrides")
            if n > 1:
                ctx.count("subclass_first" if perm[0] != 0 else "base_first")
            if sum(len(s.fields) for s in specs) >= 2:
                ctx.fp((detail["source"].replace(P, "P_"), perm, first_acc))
            # a class whose init=False properties are derived in __post_init__: the accessors report the values the node holds
            dv = U.module.__dict__[f"{P}Dv"](a=3 + ci)
            ctx.evaluations += 1
            ctx.count("derived_init_false_properties")
            got_ = {f_.name: v_ for v_, f_ in dv.get_properties(sort_keys=bool(ci % 2))}
            if got_.get("twice") != dv.twice or got_.get("label") != dv.label or dv.to_properties_dict().get("twice") != 2 * (3 + ci) or dv.to_properties_dict().get("label") != f"a={3 + ci}":
                ctx.violation("get_properties", "get_properties / to_properties_dict do not report the values an init=False property holds (derived in __post_init__)", {"got": {k_: repr(v_) for k_, v_ in got_.items() if k_ in ("twice", "label")}, "held": (dv.twice, dv.label)})
            irng = ctx.rng(case, f"inst{ci}")
            try:
                for k, idx in enumerate(perm):
                    cname = names[idx]
                    C = U.cls[cname]
                    if k == 0:
                        # first use of the first class through the chosen accessor
                        if first_acc == "get_property_fields":
                            list(C.get_property_fields())
                        elif first_acc == "get_child_fields":
                            C.get_child_fields()
                    inst = make_instance(irng, U, cname)
                    if k == 0 and first_acc == "children":
                        _ = inst.children  # bootstraps get_child_nodes unsorted
                    # (the other accessors get their first call inside check_instance, where it is checked)
                    check_instance(ctx, U, cname, inst, detail, irng, full=(k == 0 or ctx.tier == "thorough"))
                # second pass: every class again (after all were used), new instances
                for cname in names:
                    inst = make_instance(irng, U, cname)
                    check_instance(ctx, U, cname, inst, detail, irng, full=False)
                    twin_with_reused_id(ctx, U, cname, inst, detail, irng)
            except AssertionError:
                raise
            except Exception as e:  # noqa: BLE001
                import traceback

                ctx.violation("accessor-raised", f"{type(e).__name__}: {e}", dict(detail, tb=traceback.format_exc()[-600:]))


    # ---- two different classes with one module and one (qualified) name: each follows its own definition ----
    for k in range(3):
        rng = ctx.rng(("same-name", k))
        P = f"D{ctx.shard}x{k}_"
        unis = []
        for gen_no in range(2):
            specs = gen_hierarchy(ctx.rng(("same-name", k, gen_no)), P)
            Ux = Universe(f"verif_c12_samename_{P}{gen_no}", specs, prelude_extra=PRELUDE_EXTRA.replace("{P}", P))
            try:
                if gen_no == 0:
                    Ux.exec()
                else:
                    # the class statements are executed again in the *same* module (the helper classes of the
                    # prelude stay the same objects): same module, same qualified names, other fields
                    Ux.module = unis[0][0].module
                    exec(compile("\n".join(Universe.render_class(s_) for s_ in specs), f"<c12 same-name {P}>", "exec", dont_inherit=True), Ux.module.__dict__)
                    Ux.cls = {s_.name: Ux.module.__dict__[s_.name] for s_ in specs}
            except Exception:  # noqa: BLE001
                break
            Ux.P = P
            unis.append((Ux, specs))
        if len(unis) < 2:
            continue
        ctx.count("same_named_class_pairs")
        order = [(u, sp, c.name) for u, sp in unis for c in sp]
        rng.shuffle(order)
        for Ux, specs, cname in order + order:
            detail = {"source": "\n".join(Universe.render_class(s_) for s_ in specs), "history": "another class with the same module and name (other fields) exists and is used in between"}
            try:
                inst = make_instance(rng, Ux, cname)
                check_instance(ctx, Ux, cname, inst, detail, rng, full=False)
            except AssertionError:
                raise
            except Exception as e:  # noqa: BLE001
                import traceback

                ctx.violation("accessor-raised", f"{type(e).__name__}: {e}", dict(detail, tb=traceback.format_exc()[-600:]))
                break
