"""C04 — serialization round-trips trees exactly in dict / JSON / MessagePack / YAML.

REF + fresh-process history: a dump (class, id, content_id, typed property values
incl. non-comparable ones, origin canon, sharing partition) of the original is
compared with the dump of from_X(to_X(tree)) for every format, while all / some /
none of the original nodes are alive; 'none' is also run in a fresh interpreter
with another hash seed.
"""
from __future__ import annotations

import base64
import gc
import json
import os
import subprocess
import sys

from vlib import gen as G
from vlib import origins as O
from vlib.regmodel import collect
from vlib.spec import S, build, deep_copy, dump_node, jsonable, preorder, real_preorder, spec_json
from vlib.universe import core_universe

LEVEL = "exploration"
TYPECHECK_OK = True  # every generated value conforms to its annotation: shards may run with RUNTIME_TYPE_CHECK on
RULE = (
    "cases = (tree, format, options, alive-subset): trees over the core universe with hostile property values (empty, "
    "YAML-hostile, control and astral characters, multi-line strings, ints at the 64-bit boundaries, extreme finite floats, "
    "-0.0, bools, None, enum members, paths, literals, tuples, optionals, frozensets), every origin kind incl. multi-origins "
    "and source sets, shared subtrees, ids with collision suffixes forced by registered twins outside the tree; formats "
    "dict / JSON (indent on/off) / MessagePack / YAML, sort-keys and index-based-source options; alive-subsets: all, a "
    "strict sub-forest, none (in-process and in a fresh interpreter with another hash seed); non-trivial = tree with >= 2 "
    "nodes or a non-default property; distinct = distinct (tree fingerprint, format, alive-subset)"
)
ASSUMPTIONS = [
    "no other live node has taken over a serialized id at deserialization time (alive-subsets arise from dropping handles / detaching whole trees)",
    "Any-typed properties, NaN/inf, lone surrogates and ints beyond 64 bits are outside the generator",
]
MUST_SEE = ["source_index_zero_in_use", "origins_with_user_defined_parts", "foreign_source_dump_loaded", "twin_population_changed_before_read", "user_dialect_roundtrips", "payload_read_again", "equal_but_distinct_source_objects", "subclass_clear_registry_calls", "union_field_non_first_member", "other_dialect_call_before_roundtrip", "recreated_with_suffix_id", "shared_subtrees", "fresh_process_cases", "subforest_alive", "none_alive", "all_alive", "multi_origin", "hostile_strings", "index_sources", "yaml", "msgpck", "json", "failed_call_before_roundtrip"]
CONFIG = {
    "quick": {"shards": 16, "trees": 60, "fresh": 6, "watchdog_s": 600},
    "thorough": {"shards": 32, "trees": 400, "fresh": 60, "watchdog_s": 3400},
}

HOSTILE = [
    "", " ", "  lead", "trail  ", "yes", "no", "null", "~", "true", "1e3", "0o7", "0x1f", "<<", "=", "-", "- a", "? b", "a: b", "a #c", "#c", "'", '"', "\\",
    "line1\nline2", "tab\there", "\x85", " ", " ", "\x00", "\x1f", "\x7f", "﻿", "é", "中文", "\U0001F600", "a\r\nb", "&anchor", "*alias", "!tag", "%dir", "@at", "`bt",
    "[1, 2]", "{a: 1}", "1_000", "1:2:3", ".inf", "-.inf", ".nan", "2001-01-01", "12:30:45", "0.1", "+1", "0", "007", "True", "None", "NULL", "Yes", "ON", "off", "y", "n",
]
INTS = [0, 1, -1, 2**31, -(2**31), 2**53 + 1, 2**63 - 1, -(2**63), 255, 10**15]
FLOATS = [0.0, -0.0, 1.5, 5e-324, 1.7976931348623157e308, -1.7976931348623157e308, 0.1 + 0.2, 1e-10, 123456789.123456789, 1e22]


def hostile_values(rng, U, s):
    """Overwrite property values of a spec tree with hostile ones."""
    from pathlib import Path

    for p in preorder(U, s):
        for f in U.prop_fields(p.spec.cls):
            if not f.init or rng.random() < 0.4:
                continue
            k = f.shape
            if k == "str":
                p.spec.props[f.name] = rng.choice(HOSTILE)
            elif k == "ostr":
                p.spec.props[f.name] = rng.choice(HOSTILE + [None, None])
            elif k == "int":
                p.spec.props[f.name] = rng.choice(INTS)
            elif k == "float":
                p.spec.props[f.name] = rng.choice(FLOATS)
            elif k == "tstr":
                p.spec.props[f.name] = tuple(rng.choice(HOSTILE) for _ in range(rng.randint(0, 3)))
            elif k == "tint":
                p.spec.props[f.name] = tuple(rng.choice(INTS) for _ in range(rng.randint(0, 3)))
            elif k == "path":
                p.spec.props[f.name] = Path(rng.choice(["a/b", "x", "/abs/p.txt", "a b/c d", "é/中"]))
            elif k == "bool":
                p.spec.props[f.name] = rng.random() < 0.5


def sharing_partition(U, root):
    """list of sorted lists of paths that hold one object"""
    by = {}
    for path, n in real_preorder(U, root):
        by.setdefault(id(n), []).append(path)
    return sorted(sorted(v) for v in by.values() if len(v) > 1)


def to_fmt(root, fmt, opts):
    so = opts or None
    if fmt == "dict":
        return root.as_dict(serialization_options=so)
    if fmt == "json":
        return root.to_json(serialization_options=so)
    if fmt == "json_indent":
        return root.to_json(indent=True, serialization_options=so)
    if fmt == "jsonb":
        return root.to_jsonb(serialization_options=so)
    if fmt == "msgpck":
        return root.to_msgpck(serialization_options=so)
    if fmt == "yaml":
        return root.to_yaml(serialization_options=so)
    raise ValueError(fmt)


def from_fmt(C, payload, fmt, opts):
    so = opts or None
    if fmt == "dict":
        return C.as_obj(payload, serialization_options=so)
    if fmt in ("json", "json_indent", "jsonb"):
        return C.from_json(payload, serialization_options=so)
    if fmt == "msgpck":
        return C.from_msgpck(payload, serialization_options=so)
    if fmt == "yaml":
        # from_yaml takes str or bytes
        if isinstance(payload, str) and len(payload) % 2 == 0:
            payload = payload.encode("utf-8")
        return C.from_yaml(payload, serialization_options=so)
    raise ValueError(fmt)


def singleton_check(U, node):
    from pyoak.origin import NO_ORIGIN, NO_POSITION, NO_SOURCE, NoOrigin

    for _, n in real_preorder(U, node):
        o = n.origin
        if isinstance(o, NoOrigin):
            if o is not NO_ORIGIN or o.source is not NO_SOURCE or o.position is not NO_POSITION:
                return "a NoOrigin / NoSource / NoPosition did not come back as the singleton"
    return None


def run_shard(ctx):
    sys.setrecursionlimit(20000)
    from pyoak.node import NODE_REGISTRY, ASTNode
    from pyoak.origin import SOURCE_OPTIMIZED_SERIALIZATION_KEY, Source
    from pyoak.serialize import SerializationOption

    U = core_universe()
    P = U.P
    fresh_jobs = []
    if ctx.shard % 4 == 2:
        # a new index-based dump starts from an empty source registry: the first source of the model gets index 0 (an index
        # like any other); in the other shards index 0 belongs to a source no tree refers to
        Source.clear_registry()
        O._SRC_CACHE.clear()
        ctx.count("source_index_zero_in_use")
    for i in range(O.N_SOURCES):
        O.source(i)
    if ctx.shard % 2:
        # clear_registry() called through subclasses: leaves the (base class) source registry as it is
        from pyoak.origin import MemoryTextSource, TextSource

        TextSource.clear_registry()
        MemoryTextSource.clear_registry()
        ctx.count("subclass_clear_registry_calls", 2)

    # ---- directed probe: multi-origin built directly with a tuple (K-C04-1)
    if ctx.only_case is None:
        from pyoak.origin import MultiOrigin

        mo = MultiOrigin(origins=(O.build_origin(("code", 0, 1, 3)), O.build_origin(("xml", 1, "/a"))))
        n = U.cls[f"{P}Leaf"](v=1, origin=mo)
        d = n.as_dict()
        n.detach()
        back = U.cls[f"{P}Leaf"].as_obj(d)
        if not (back == n):
            ctx.violation("multiorigin-tuple", "MultiOrigin(origins=<tuple>) comes back with a list and compares unequal", {"origins_type_after": type(back.origin.origins).__name__})
        back.detach()
        del n, back

    for case in ctx.cases(ctx.params["trees"]):
        rng = ctx.rng(case)
        tg = G.TreeGen(rng, U, max_nodes=rng.choice([3, 8, 16]), max_depth=5, max_width=4, share=0.15 if case % 3 == 0 else 0.0, twin=0.25, p_origin=0.6, hostile=0.0, exclude=(f"{P}Ser", f"{P}Blob", f"{P}Nested"))  # bytes / Any-typed nested tuples are not among the representable kinds of the statement; a per-instance init=False value cannot round-trip (don't-care)
        s = tg.tree()
        if case % 7 == 3:
            # origins with parts of the user's own classes: a position that is not hashable, a measurable (falsy) origin
            s.origin = rng.choice([("tok", case % O.N_SOURCES, case % 3), ("span", 0, 1, 1)])
            ctx.count("origins_with_user_defined_parts")
        directed_union = case % 6 == 5
        if directed_union:
            # union-typed child fields holding non-first members, shared or not (alive modes below keep exactly these alive)
            un = S(f"{P}Un", {"op": "~"}, {"child": S(f"{P}Leaf", {"v": rng.randrange(100)})}, O.gen_origin(rng))
            fal = S(f"{P}Falsy", {"v": rng.randrange(100)})
            mix = S(f"{P}Mix", {}, {"kids": (S(f"{P}Leaf", {"v": 1}), un, un if rng.random() < 0.6 else deep_copy(un))})
            s = S(f"{P}List", {}, {"items": (mix, s) if issubclass(U.cls[s.cls], U.cls[f"{P}Expr"]) else (mix,), "root": fal})
            ctx.count("union_field_non_first_member")
        hostile_values(rng, U, s)
        fp = G.shape_fingerprint(U, s)
        if case < 1 and ctx.shard == 0:
            ctx.sample({"tree": spec_json(s)})
        if any(isinstance(v, str) and v in HOSTILE for p in preorder(U, s) for v in p.spec.props.values()):
            ctx.count("hostile_strings")
        if any(p.spec.origin[0] == "multi" for p in preorder(U, s)):
            ctx.count("multi_origin")
        for fmt in rng.sample(["dict", "json", "json_indent", "jsonb", "msgpck", "yaml"], 4):
            alive_mode = rng.choice(["all", "subforest", "none", "none"])
            opts = {}
            if rng.random() < 0.3:
                opts[SerializationOption.SORT_KEYS] = True
            idx_sources = rng.random() < 0.25
            if idx_sources:
                opts[SOURCE_OPTIMIZED_SERIALIZATION_KEY] = True
                ctx.count("index_sources")
            ctx.count("yaml" if fmt == "yaml" else "msgpck" if fmt == "msgpck" else "json" if fmt.startswith("json") else "dict")
            force_suffix = rng.random() < 0.4
            twins = []
            if force_suffix:
                # content-identical twins outside the tree, registered first -> the tree's nodes get suffix ids
                # (one, two or three of them: suffix _1, _2, _3)
                for _ in range(rng.choice([1, 1, 2, 2, 3])):
                    twins.append(build(U, deep_copy(s)))
            distinct_sources = rng.random() < 0.25
            if distinct_sources:
                # every origin carries its own source object, equal to but distinct from the registered one
                ctx.count("equal_but_distinct_source_objects")
            root = build(U, s, origin_fn=(lambda sp: O.build_origin(sp.origin, src=O.fresh_source)) if distinct_sources else None)
            C = type(root)
            detail = {"tree": spec_json(s), "format": fmt, "alive": alive_mode, "options": sorted(str(k) for k in opts), "forced_suffix": force_suffix}
            ctx.evaluations += 1
            ctx.fp((fp, fmt, alive_mode))
            try:
                payload = to_fmt(root, fmt, opts)
            except Exception as e:  # noqa: BLE001
                ctx.violation("serialize-raised", f"{type(e).__name__}: {e}"[:300], detail)
                root.detach()
                for t in twins:
                    t.detach()
                continue
            exp_dump = dump_node(U, root)
            exp_share = sharing_partition(U, root)
            if exp_share:
                ctx.count("shared_subtrees")
            paths = real_preorder(U, root)
            has_suffix = any("_" in n.id for _, n in paths)
            keep = {}
            if alive_mode == "all":
                keep = {(): root}
                ctx.count("all_alive")
            elif alive_mode == "subforest":
                cands = [(p, n) for p, n in paths if p]
                if directed_union and rng.random() < 0.7:
                    cands = [(p, n) for p, n in cands if type(n).__name__ in (f"{P}Un", f"{P}Falsy")]
                for p, n in rng.sample(cands, min(len(cands), rng.randint(1, 2))):
                    keep[p] = n
                if keep:
                    ctx.count("subforest_alive")
            else:
                ctx.count("none_alive")
            # fresh-process job (payload must be deserialized where nothing is alive)
            if alive_mode == "none" and len(fresh_jobs) < ctx.params["fresh"] and fmt != "dict":
                pl = payload if isinstance(payload, (bytes, bytearray)) else payload.encode("utf-8")
                fresh_jobs.append(
                    {
                        "fmt": fmt, "cls": C.__name__, "payload": base64.b64encode(pl).decode(), "is_bytes": isinstance(payload, (bytes, bytearray)),
                        "dump": jsonable(exp_dump), "share": jsonable(exp_share), "opts": sorted(k.value if hasattr(k, "value") else k for k in opts),
                        "sources": Source.all_as_dict() if idx_sources else None, "detail": detail,
                    }
                )
            # drop what must die
            alive_objs = {}
            for p, n in keep.items():
                for q, m in real_preorder(U, n):
                    alive_objs[p + q] = m
            del paths, root
            n = p = q = m = None
            if len(twins) > 1 and alive_mode != "all" and rng.random() < 0.6:
                # some of the twins are gone by the time the payload is read (the elder one stays, a middle one goes ...):
                # the ids the re-created nodes compute carry another suffix than the serialized ones
                gone = rng.choice(["middle", "middle", "first", "all_but_first"])
                idxs = {"middle": [1], "first": [0], "all_but_first": list(range(1, len(twins)))}[gone]
                for i in sorted(idxs, reverse=True):
                    twins.pop(i).detach()
                ctx.count("twin_population_changed_before_read")
            collect()
            if rng.random() < 0.3:
                # unrelated earlier calls with other dialects / options (their output is of no interest here)
                ctx.count("other_dialect_call_before_roundtrip")
                from pyoak.node import AST_SERIALIZE_DIALECT_KEY, ASTSerializationDialects

                tmp = U.cls[f"{P}Un"](child=U.cls[f"{P}Leaf"](v=case, origin=O.build_origin(("code", case % O.N_SOURCES, 1, 3))), op="n")
                for dia in (ASTSerializationDialects.AST_TEST, ASTSerializationDialects.AST_EXPLORER):
                    try:
                        tmp.as_dict(serialization_options={AST_SERIALIZE_DIALECT_KEY: dia})
                        tmp.to_json(serialization_options={AST_SERIALIZE_DIALECT_KEY: dia, SerializationOption.SORT_KEYS: True})
                    except Exception:  # noqa: BLE001
                        pass
                tmp.child.detach()
                tmp.detach()
                del tmp
            if rng.random() < 0.25:
                # an earlier call that fails part-way (unknown type tag below the root, index-based sources requested)
                ctx.count("failed_call_before_roundtrip")
                try:
                    C.as_obj({"__type": C.__name__, "id": "x", "content_id": "y", "origin": {"__type": "CodeOrigin", "source": {"idx": 987654}, "position": {}}},
                             serialization_options={SOURCE_OPTIMIZED_SERIALIZATION_KEY: True, SerializationOption.SKIP_CLASS: True})
                except Exception:  # noqa: BLE001
                    pass
                if not opts:
                    # the payload for this leg is produced *after* the failed call and must be a default one
                    tmp = build(U, deep_copy(s))
                    chk = tmp.as_dict()
                    tmp.detach()
                    if "__type" not in chk or any(isinstance(v, dict) and set(v) == {"idx"} for v in (chk.get("origin", {}).get("source"),)):
                        ctx.violation("options-leaked-into-roundtrip", "a default serialization after a failed call with options is not a default serialization", dict(detail, keys=list(chk)[:6]))
                    del tmp
            if rng.random() < 0.2:
                # a dump of sources from elsewhere (another order, some sources unknown here) is loaded into the registry
                # that already holds this process's sources: known sources stay what and where they are
                dump = [d for d in reversed(Source.all_as_dict()) if "sources" not in d]  # (plain sources only, no source sets)
                extra = [dict(d, source_uri=f"foreign://{case}/{i}") for i, d in enumerate(dump[:2]) if "source_uri" in d and "sources" not in d]
                Source.load_serialized_sources(extra[:1] + dump + extra[1:])
                ctx.count("foreign_source_dump_loaded")
            try:
                res = from_fmt(C, payload, fmt, opts)
            except Exception as e:  # noqa: BLE001
                import traceback

                ctx.violation("deserialize-raised", f"{type(e).__name__}: {e}"[:300], dict(detail, tb=traceback.format_exc()[-500:]))
                for t in twins:
                    t.detach()
                for n_ in keep.values():
                    n_.detach()
                continue
            got_dump = dump_node(U, res)
            if got_dump != exp_dump:
                where = None
                for (pa, na) in real_preorder(U, res):
                    pass
                ctx.violation("dump-differs", "the deserialized tree differs from the original (class / id / content_id / properties / origin at some position)", dict(detail, got=str(jsonable(got_dump))[:700], exp=str(jsonable(exp_dump))[:700]))
            else:
                if has_suffix and alive_mode != "all":
                    ctx.count("recreated_with_suffix_id")
                if sharing_partition(U, res) != exp_share:
                    ctx.violation("sharing-lost", "a node that occurred at several positions is not one shared object after the round trip", detail)
                for path, node in real_preorder(U, res):
                    if path in alive_objs:
                        if node is not alive_objs[path]:
                            ctx.violation("alive-not-reused", "a still-registered original node did not come back as the same object", dict(detail, path=list(path)))
                            break
                    if ASTNode.get_any(node.id) is not node:
                        ctx.violation("not-registered", "a deserialized node is not registered under its id", dict(detail, path=list(path)))
                        break
                err = singleton_check(U, res)
                if err:
                    ctx.violation("singletons", err, detail)
                if alive_mode == "all":
                    orig = keep[()]
                    try:
                        if not (res == orig):
                            ctx.violation("not-equal", "round-trip result is not == to the original", detail)
                    except Exception as e:  # noqa: BLE001
                        ctx.violation("not-equal", f"== raised {e}", detail)
            res.detach()
            for n_ in keep.values():
                n_.detach()
            for t in twins:
                t.detach()
            del res, keep, alive_objs, twins
            collect()
    # ---- the documented mashumaro_dialect argument of as_dict / as_obj and to_yaml / from_yaml (no other options given)
    if ctx.only_case is None:
        from mashumaro.dialect import Dialect as _Dialect

        Color = U.module.__dict__[f"{P}Color"]

        class ByName(_Dialect):
            serialization_strategy = {Color: {"serialize": lambda x: "color:" + x.name, "deserialize": lambda s_: Color[s_.split(":", 1)[1]]}}

        for k, member in enumerate(Color):
            for ser, de in (("as_dict", "as_obj"), ("to_yaml", "from_yaml")):
                mix = U.cls[f"{P}Mix"](e=member)
                holder = U.cls[f"{P}List"](items=(mix, U.cls[f"{P}Leaf"](v=k)))
                dump0 = dump_node(U, holder)
                ctx.evaluations += 1
                ctx.count("user_dialect_roundtrips")
                try:
                    pl = getattr(holder, ser)(mashumaro_dialect=ByName)
                    wire = pl if isinstance(pl, str) else json.dumps(pl, default=str)
                    holder.detach()
                    back = getattr(type(holder), de)(pl, mashumaro_dialect=ByName)
                    ok_ = dump_node(U, back) == dump0 and ("color:" + member.name) in wire
                    back.detach()
                except Exception as e:  # noqa: BLE001
                    ok_ = f"{type(e).__name__}: {e}"[:200]
                if ok_ is not True:
                    ctx.violation("dialect-roundtrip", f"{ser} / {de} with a user mashumaro dialect (and no other option) does not give the tree back", {"format": ser, "member": member.name, "got": ok_})
                del mix, holder
                collect()
    # ---- one payload object read several times (each time after the previous result is gone)
    if ctx.only_case is None:
        for k in range(12):
            rng = ctx.rng(("reread", k))
            tg = G.TreeGen(rng, U, max_nodes=8, max_depth=4, max_width=3, share=0.0, twin=0.1, p_origin=0.5, hostile=0.0, exclude=(f"{P}Ser", f"{P}Blob", f"{P}Nested"))
            s = tg.tree()

            def make_payload():
                r0 = build(U, s)
                d_ = r0.as_dict()
                dump0 = dump_node(U, r0)
                r0.detach()
                return d_, dump0, type(r0)

            payload, dump0, C = make_payload()
            collect()
            ctx.count("payload_read_again")
            for attempt in range(3):
                ctx.evaluations += 1
                try:
                    r = C.as_obj(payload)
                except Exception as e:  # noqa: BLE001
                    ctx.violation("deserialize-raised", f"reading one dict payload for the {attempt + 1}. time raised {type(e).__name__}: {e}"[:300], {"tree": spec_json(s), "format": "dict", "attempt": attempt + 1})
                    break
                if dump_node(U, r) != dump0:
                    ctx.violation("dump-differs", f"the {attempt + 1}. reading of one dict payload differs from the original", {"tree": spec_json(s), "format": "dict", "attempt": attempt + 1})
                    r.detach()
                    break
                r.detach()
                del r
                collect()
    # ---- fresh interpreter leg
    if fresh_jobs and ctx.only_case is None:
        jf = os.path.join(os.getcwd(), f"c04_fresh_{ctx.shard}.json")
        with open(jf, "w") as f:
            json.dump(fresh_jobs, f)
        env = dict(os.environ)
        env["PYTHONHASHSEED"] = str((int(env.get("PYTHONHASHSEED", "1")) * 31 + 7) % 4294967295)
        p = subprocess.run([sys.executable, "-m", "checks.c04_child", jf], env=env, capture_output=True, text=True, timeout=600, cwd=os.path.dirname(os.path.dirname(os.path.abspath(__file__))))
        try:
            out = json.loads(p.stdout.strip().splitlines()[-1])
        except Exception:  # noqa: BLE001
            raise RuntimeError("fresh-process child died: " + (p.stderr or p.stdout)[-1500:])
        ctx.count("fresh_process_cases", out["n"])
        ctx.evaluations += out["n"]
        for v in out["violations"]:
            ctx.violation(v["mechanism"], "[fresh process] " + v["what"], v["detail"])
        os.remove(jf)
