"""C19 — a rejected legacy operation changes nothing.

FRAME x fault enumeration: on top of C18 histories, every kind of operation the
library must reject is issued with the failing element at every position; a frame
of all pre-existing nodes (attached flag, parent / field / index, identity of every
field value incl. sequence elements, id, original_id, content_id) and of the
registry is compared before / after each documented rejection.
"""
from __future__ import annotations

import signal
import sys
import traceback

from checks.c18 import OpTimeout, Runner, _alarm
from vlib import origins as O
from vlib.legacy import build_legacy, struct_children, struct_subtree
from vlib.legacy_forest import desc
from vlib.legacy_universe import legacy_universe
from vlib.spec import S

LEVEL = "fault_enumeration"
RULE = (
    "after a random C18 history (10-25 operations) the harness issues rejected operations, the failing element placed "
    "first / middle / last and direct / nested: constructor with the same child twice (same sequence, two fields), with a "
    "child that already has an attached parent (direct child, or below a detached argument), id collisions "
    "(ensure_unique_id), attach of a node whose own or a descendant's id is taken, forbidden / unknown replace keys, replace "
    "with duplicate children or a child that has another parent, replace_with a node that has a parent / of the wrong "
    "class / None in a required field / whose attach fails, raising and invalid transforms; before/after frames of every "
    "pre-existing node and of the registry; non-trivial = rejection with >= 1 pre-existing node involved; distinct = "
    "distinct (operation, error, position, receiver state)"
)
ASSUMPTIONS = [
    "documented errors = the exception classes of pyoak.legacy.error; an operation that raises anything else gives no verdict (counted)",
    "operations expected to be rejected that are accepted give no verdict (counted) and join the history",
]
MUST_SEE = ["attach_of_stale_detached_node_rejected", "collision_in_sequence_declared_before_single_fields", "receiver_with_node_or_scalar_field", "collision_two_levels_below_new", "nodes_above_failing_descendant_checked", "transform_of_a_detached_tree_rejected", "replace_key_init_false_in_subclass", "same_id_pair_as_children", "transform_result_is_an_attached_root", "detached_receiver_children_reused", "falsy_replacement_with_parent", "visitor_reused_after_rejection", "wrapper_reusing_own_child", "replace_with_own_child", "adopted_children_checked", "runtime_only_child_field_transform", "rule_replaces_children_of_its_copy", "receiver_below_falsy_parent", 
    "rejected_ASTNodeDuplicateChildrenError", "rejected_ASTNodeParentCollisionError", "rejected_ASTNodeIDCollisionError", "rejected_ASTNodeRegistryCollisionError",
    "rejected_ASTNodeReplaceError", "rejected_ASTNodeReplaceWithError", "rejected_ASTTransformError", "failing_element_not_first", "frames_compared", "nested_failing_element", "two_collided_children",
]
CONFIG = {
    "quick": {"shards": 16, "histories": 120, "ops": 18, "rejects": 30, "watchdog_s": 600},
    "thorough": {"shards": 32, "histories": 300, "ops": 30, "rejects": 60, "watchdog_s": 3400},
}


def run_shard(ctx):
    sys.setrecursionlimit(20000)
    import warnings

    warnings.simplefilter("ignore", DeprecationWarning)
    from pyoak.legacy import error as LE
    from pyoak.legacy.node import ASTTransformer, ASTTransformVisitor, AwareASTNode

    DOCUMENTED = (
        LE.ASTNodeDuplicateChildrenError, LE.ASTNodeParentCollisionError, LE.ASTNodeRegistryCollisionError, LE.ASTNodeIDCollisionError,
        LE.ASTNodeReplaceError, LE.ASTNodeReplaceWithError, LE.ASTTransformError,
    )
    U = legacy_universe(runtime_only=(ctx.shard % 2 == 0))
    P = U.P
    NO = O.build_origin(("no",))
    signal.signal(signal.SIGALRM, _alarm)

    for case in ctx.cases(ctx.params["histories"]):
        rng = ctx.rng(case)
        for v in list(AwareASTNode._nodes.values()):
            AwareASTNode._nodes.pop(v.id, None)
        quiet = type(ctx)(ctx.prop, ctx.tier, ctx.seed, ctx.shard, ctx.nshards, ctx.params)  # history phase: counters not merged
        R = Runner(quiet, U, rng, alias_mode=False)
        R.run(rng.randint(8, ctx.params["ops"]))
        if quiet.violations:
            continue  # C18's subject
        F = R.F
        R.ctx = ctx

        def leaf():
            R.counter += 1
            n = U.cls[f"{P}Leaf"](v=R.counter + 20000, origin=NO)
            F.add(n)
            return n

        def attached_with_parent():
            c = [n for n in F.handles if not n.detached and n.parent is not None]
            return rng.choice(c) if c else None

        def free_attached_root():
            c = [n for n in F.handles if not n.detached and n.parent is None and id(n) not in R.stale]
            return rng.choice(c) if c else None

        def below_falsy_parent():
            """a fresh receiver whose parent is a node that is falsy (a block without statements)"""
            recv = U.cls[f"{P}List"](items=(leaf(), leaf()), origin=NO)
            blk = U.cls[f"{P}Block"](header=recv, origin=NO)
            F.add(blk)
            ctx.count("receiver_below_falsy_parent")
            return recv

        def place(bad, k, where):
            """sequence of k fresh leaves with `bad` inserted first / middle / last"""
            seq = [leaf() for _ in range(k)]
            pos = {"first": 0, "middle": max(1, k // 2), "last": k}[where]
            seq.insert(pos, bad)
            return seq, pos

        def gen_reject():
            """returns (opname, where, receiver, args, thunk) or None"""
            R.last_replace_extra = None
            # the kinds with recorded findings end the history, so they are drawn less often
            kind = rng.choices(
                ["dup_seq", "dup_two_fields", "parent_collision", "parent_collision_nested", "id_collision", "attach_collision", "attach_collision_nested",
                 "replace_keys", "replace_dup", "replace_parent_collision", "rw_has_parent", "rw_wrong_class", "rw_none_required", "rw_attach_fails",
                 "transform_raises", "transform_removes_required", "transformer_raises", "rw_clone_of_attached", "parent_collision_two", "transform_runtime_children", "rw_own_child", "rw_wrapper_reuses_child", "transform_reused_visitor", "rw_falsy_with_parent", "transform_result_refused", "replace_dup_detached_receiver", "replace_same_id_pair", "transform_on_detached_tree", "rw_collision_two_levels_down", "replace_collision_in_sequence_declared_first", "attach_of_stale_detached_rejected_at_child"],
                [3, 3, 1, 1, 3, 3, 1, 3, 1, 1, 3, 3, 3, 1, 3, 3, 3, 2, 2, 2 if f"{P}Seq" in U.cls else 0, 2, 2, 2, 2, 2, 2, 2, 2, 2, 2, 2],
            )[0]
            where = rng.choice(["first", "middle", "last"])
            if kind == "dup_seq":
                c = free_attached_root() if rng.random() < 0.5 else None
                c = c or leaf()
                seq, pos = place(c, 2, where)
                seq.insert(rng.randrange(len(seq) + 1), c)
                cls = rng.choice([f"{P}List", f"{P}Lst"])
                fname = "items" if cls == f"{P}List" else "elems"
                val = tuple(seq) if cls == f"{P}List" else list(seq)
                return ("construct", where, None, seq, lambda: U.cls[cls](origin=NO, **{fname: val}))
            if kind == "dup_two_fields":
                c = free_attached_root() if rng.random() < 0.5 else None
                c = c or leaf()
                if rng.random() < 0.5:
                    return ("construct", "last", None, [c], lambda: U.cls[f"{P}Bin"](left=c, right=c, origin=NO))
                seq, pos = place(c, 2, where)
                extra = leaf()
                return ("construct", where, None, seq + [extra], lambda: U.cls[f"{P}Call"](args=tuple(seq), kwargs=[extra, c], origin=NO))
            if kind == "parent_collision":
                c = attached_with_parent()
                if c is None:
                    return None
                seq, pos = place(c, 2, where)
                if rng.random() < 0.4:
                    d = [n for n in F.handles if n.detached and F.attach_ok(n) and not (F.objs_of(n) & F.tree_objs_containing(c))]
                    if d:
                        seq[0 if pos != 0 else -1] = rng.choice(d)  # a detached node is (re-)attached before the collision is found
                cls = rng.choice([f"{P}List", f"{P}Call"])
                fname = "items" if cls == f"{P}List" else "args"
                return ("construct", where, None, seq, lambda: U.cls[cls](origin=NO, **{fname: tuple(seq)}))
            if kind == "parent_collision_nested":
                # a detached node one of whose structural descendants is attached below another parent
                cands = []
                for d in F.handles:
                    if d.detached and AwareASTNode.get_any(d.id) is None:
                        for x in struct_subtree(U, d)[1:]:
                            if not x.detached and x.parent is not None and not any(x.parent is y for y in struct_subtree(U, d)):
                                cands.append(d)
                                break
                if not cands:
                    return None
                d = rng.choice(cands)
                seq, pos = place(d, 2, where)
                ctx.count("nested_failing_element")
                return ("construct", where, None, seq, lambda: U.cls[f"{P}List"](items=tuple(seq), origin=NO))
            if kind == "id_collision":
                t = free_attached_root() or attached_with_parent()
                if t is None:
                    return None
                kids = [leaf(), leaf()]
                return ("construct_ensure_unique", "first", None, kids + [t], lambda: U.cls[f"{P}List"](items=tuple(kids), id=t.id, ensure_unique_id=True, origin=NO))
            if kind == "attach_collision":
                c = [n for n in F.handles if n.detached and AwareASTNode.get_any(n.id) is not None]
                if not c:
                    return None
                n = rng.choice(c)
                return ("attach", "first", n, [], lambda: n.attach())
            if kind == "attach_collision_nested":
                cands = []
                for d in F.handles:
                    if d.detached and AwareASTNode.get_any(d.id) is None:
                        sub = struct_subtree(U, d)[1:]
                        for i, x in enumerate(sub):
                            if x.detached and AwareASTNode.get_any(x.id) is not None:
                                cands.append(d)
                                break
                if not cands:
                    return None
                d = rng.choice(cands)
                ctx.count("nested_failing_element")
                return ("attach", "nested", d, [], lambda: d.attach())
            if kind == "replace_keys":
                n = rng.choice(F.handles)
                key = rng.choice(["id", "content_id", "original_id", "id_collision_with", "no_such_field", "ensure_unique_id" if False else "id"])
                if rng.random() < 0.35:
                    # a field that the receiver's class re-declares as init=False (replaceable in its base class, where
                    # replace() was used just before)
                    base = U.cls[f"{P}Lbl"](label="b", kid=leaf(), origin=NO)
                    F.add(base)
                    F.add(base.replace(label="c"))
                    n = U.cls[f"{P}FixedLbl"](kid=leaf(), more=(leaf(), leaf()), origin=NO)
                    top = U.cls[f"{P}Un"](child=n, origin=NO) if rng.random() < 0.5 else None
                    F.add(n, top)
                    key = "label"
                    ctx.count("replace_key_init_false_in_subclass")
                return ("replace_keys", "first", n, [], lambda: n.replace(**{key: "x"}))
            if kind == "replace_dup":
                c = [n for n in F.handles if type(n).__name__ in (f"{P}List", f"{P}Lst", f"{P}Call") and id(n) not in R.stale]
                if not c:
                    return None
                n = rng.choice(c)
                if rng.random() < 0.3:
                    n = below_falsy_parent()
                f = rng.choice([f for f in U.child_fields(type(n).__name__) if f.shape in ("tuple", "list")])
                cur = list(getattr(n, f.name))
                d = rng.choice(cur) if cur and rng.random() < 0.5 else leaf()
                seq, pos = place(d, 1, where)
                seq.append(d)
                rest = [x for x in cur if x is not d]
                val = rest[:1] + seq if where != "first" else seq + rest[:1]
                R.last_replace = (f.name, list(val))
                return ("replace", where, n, val, lambda: n.replace(**{f.name: (val if f.shape == "list" else tuple(val))}))
            if kind == "replace_parent_collision":
                c = [n for n in F.handles if type(n).__name__ in (f"{P}List", f"{P}Lst", f"{P}Call") and id(n) not in R.stale]
                x = attached_with_parent()
                if not c or x is None:
                    return None
                n = rng.choice(c)
                if rng.random() < 0.3:
                    n = below_falsy_parent()
                if x.parent is n or id(x) in F.objs_of(n) or id(n) in F.objs_of(x):
                    return None
                f = rng.choice([f for f in U.child_fields(type(n).__name__) if f.shape in ("tuple", "list")])
                cur = list(getattr(n, f.name))
                seq, pos = place(x, 1, where)
                val = (cur + seq) if where != "first" else (seq + cur)
                R.last_replace = (f.name, list(val))
                return ("replace", where, n, val, lambda: n.replace(**{f.name: (val if f.shape == "list" else tuple(val))}))
            if kind == "rw_has_parent":
                n = rng.choice(F.handles)
                x = attached_with_parent()
                if x is None or x is n:
                    return None
                return ("replace_with", "first", n, [x], lambda: n.replace_with(x))
            if kind == "transform_result_refused":
                # the visitor completes and hands back an attached root of its own (an existing tree); the final swap into the
                # receiver's slot is refused (the slot takes leaves only): that tree stays exactly as it was
                lf = leaf()
                holder = U.cls[f"{P}Lst"](elems=[leaf()], opt=lf, origin=NO)
                X = U.cls[f"{P}Un"](child=U.cls[f"{P}Bin"](left=leaf(), right=leaf(), origin=NO), origin=NO)
                F.add(holder, X)
                V = type("RV4", (ASTTransformVisitor,), {f"visit_{P}Leaf": lambda self_, node: X})
                ctx.count("transform_result_is_an_attached_root")
                return ("transform", "first", lf, [X], lambda: V().transform(lf))
            if kind == "replace_dup_detached_receiver":
                # a tree is detached, some of its former children are re-used under other attached parents; then the stale,
                # still detached node is asked to replace() itself with duplicated children: refused, nothing moves
                a_, b_, c_ = leaf(), leaf(), leaf()
                oldn = U.cls[f"{P}List"](items=(a_, b_, c_), origin=NO)
                F.add(oldn)
                oldn.detach()
                for x_ in (a_, b_):
                    x_.attach()
                new_home = U.cls[f"{P}Call"](args=(leaf(), a_), kwargs=[b_], origin=NO)
                F.add(new_home)
                ctx.count("detached_receiver_children_reused")
                return ("replace", "last", oldn, [a_, b_, c_, c_], lambda: oldn.replace(items=(a_, b_, c_, c_)))
            if kind == "rw_collision_two_levels_down":
                # the replacement is a fresh detached carrier around a detached node (its id is free) whose own child is a
                # stale twin of a live node (its id is taken): the attach of the carrier fails two levels down
                R.counter += 1
                v_ = R.counter + 97000
                t_old = U.cls[f"{P}Leaf"](v=v_, origin=NO)
                t_old.detach()
                t_new = U.cls[f"{P}Leaf"](v=v_, origin=NO)
                mid = U.cls[f"{P}Un"](child=t_old, origin=NO, create_detached=True)
                extra = leaf()
                extra.detach()
                carrier = U.cls[f"{P}List"](items=(extra, mid) if where != "first" else (mid, extra), origin=NO, create_detached=True)
                x_ = U.cls[f"{P}Un"](child=leaf(), origin=NO)
                if rng.random() < 0.5:
                    # the receiver's class has a field that admits a node or a scalar and holds the scalar; the class was asked
                    # for its static field lists before (a schema generator)
                    x_ = U.cls[f"{P}UnionLbl"](label=f"text{R.counter}", kid=x_, origin=NO)
                    if rng.random() < 0.7:
                        list(type(x_).get_property_fields()), list(type(x_).get_child_fields())
                    ctx.count("receiver_with_node_or_scalar_field")
                holder = U.cls[f"{P}List"](items=(leaf(), x_), origin=NO)
                F.add(t_old, t_new, mid, extra, carrier, holder)
                ctx.count("collision_two_levels_below_new")
                return ("replace_with_attach_fails", where, x_, [carrier], lambda: x_.replace_with(carrier))
            if kind == "transform_on_detached_tree":
                # transform() asked of a tree that was taken out of the registry before (the visitor walks the caller's own
                # nodes): the rules rewrite leaves, the one for the last grandchild raises - the caller's tree stays as it was
                def mk():
                    R.counter += 1
                    return U.cls[f"{P}Leaf"](v=R.counter + 95000, origin=NO)

                inner = U.cls[f"{P}Bin"](left=mk(), right=mk(), origin=NO) if f"{P}Bin" in U.cls else U.cls[f"{P}List"](items=(mk(), mk()), origin=NO)
                first = U.cls[f"{P}List"](items=(mk(), inner), origin=NO)
                bad = U.cls[f"{P}Leaf2"](v=R.counter + 96000, origin=NO)
                second = U.cls[f"{P}List"](items=(mk(), bad) if where != "first" else (bad, mk()), origin=NO)
                top = U.cls[f"{P}List"](items=(first, second), origin=NO)
                F.add(top)
                top.detach()

                def up(self_, node):
                    return node.replace(v=node.v + 1000000)

                def boom(self_, node):
                    raise RuntimeError("rule raised")

                V = type("RV5", (ASTTransformVisitor,), {f"visit_{P}Leaf": up, f"visit_{P}Leaf2": boom})
                ctx.count("transform_of_a_detached_tree_rejected")
                return ("transform", "nested", top, [], lambda: V().transform(top))
            if kind == "replace_collision_in_sequence_declared_first":
                # the receiver's class declares a sequence child field before its single child fields; the new value of the
                # sequence holds a node of another parent, the changes also hand an (innocent) attached root to a later single
                # field: refused when the sequence element is met - the root that comes later in child order was never reached
                x = attached_with_parent()
                if x is None:
                    return None
                recv = U.cls[f"{P}SeqFirst"](items=(leaf(), leaf()), alpha=leaf(), origin=NO)
                top = U.cls[f"{P}Un"](child=recv, origin=NO) if rng.random() < 0.5 else None
                innocent = U.cls[f"{P}Un"](child=leaf(), origin=NO)
                F.add(recv, top, innocent)
                if id(x) in F.objs_of(recv) or (top is not None and id(x) in F.objs_of(top)):
                    return None
                seq, pos = place(x, 1, where)
                R.last_replace = ("items", list(seq))
                R.last_replace_extra = {"omega": innocent}
                ctx.count("collision_in_sequence_declared_before_single_fields")
                return ("replace", where, recv, list(seq) + [innocent], lambda: recv.replace(items=tuple(seq), omega=innocent))
            if kind == "attach_of_stale_detached_rejected_at_child":
                # a node taken out alone (its children stay attached roots), a grandchild changed meanwhile (the cached content id
                # of the detached node is out of date), one of its children adopted by another parent: attach() is refused at that
                # child - the detached node is what it was, its out-of-date content id included
                R.counter += 1
                lf = U.cls[f"{P}Leaf"](v=R.counter + 98000, origin=NO)
                mid = U.cls[f"{P}Un"](child=lf, origin=NO)
                taken = leaf()
                top_ = U.cls[f"{P}List"](items=(mid, taken) if where != "first" else (taken, mid), origin=NO)
                F.add(top_)
                top_.detach_self()
                F.add(lf.replace(v=R.counter + 99000))
                other = U.cls[f"{P}Un"](child=taken, origin=NO)
                F.add(other)
                ctx.count("attach_of_stale_detached_node_rejected")
                return ("attach", where, top_, [], lambda: top_.attach())
            if kind == "replace_same_id_pair":
                # a node is detached while a reference to it is kept, the same node is created again (same id); later both
                # objects are handed to replace() of an attached node: two children with one id, refused before anything moves
                R.counter += 1
                v_ = R.counter + 90000
                one_old = U.cls[f"{P}Leaf"](v=v_, origin=NO)
                one_old.detach()
                one_new = U.cls[f"{P}Leaf"](v=v_, origin=NO)
                recv = U.cls[f"{P}List"](items=tuple(leaf() for _ in range(rng.randrange(0, 3))), origin=NO)
                top = U.cls[f"{P}Un"](child=recv, origin=NO) if rng.random() < 0.6 else None
                F.add(one_old, one_new, recv, top)
                pair = [one_new, one_old] if where != "last" else [one_old, one_new]
                cur = list(recv.items)
                val = cur + pair if where != "first" else pair + cur
                R.last_replace = ("items", list(val))
                ctx.count("same_id_pair_as_children")
                return ("replace", where, recv, val, lambda: recv.replace(items=tuple(val)))
            if kind == "rw_falsy_with_parent":
                # the replacement already has a parent - and is falsy in a boolean context (a block without statements)
                x = U.cls[f"{P}Block"](header=leaf() if rng.random() < 0.5 else None, origin=NO)
                owner = U.cls[f"{P}List"](items=(leaf(), x), origin=NO)
                n = U.cls[f"{P}Un"](child=leaf(), origin=NO)
                top = U.cls[f"{P}List"](items=(n,), origin=NO) if rng.random() < 0.7 else None
                F.add(owner, n, top)
                ctx.count("falsy_replacement_with_parent")
                return ("replace_with_must_reject", "first", n, [x], lambda: n.replace_with(x))
            if kind == "transform_reused_visitor":
                # one visitor object, used again after a transform of its was rejected; its rule for list holders edits the
                # lists of the working copy it is given in place (harmless: a copy), a later rule raises
                empty = U.cls[f"{P}Lst"](elems=[], origin=NO)
                filled = U.cls[f"{P}Lst"](elems=[leaf()], origin=NO)
                last = U.cls[f"{P}Leaf2"](v=R.counter + 70000, origin=NO)
                n = U.cls[f"{P}List"](items=(empty, filled, last) if where != "first" else (last, empty, filled), origin=NO)
                other = U.cls[f"{P}List"](items=(U.cls[f"{P}Leaf2"](v=R.counter + 71000, origin=NO),), origin=NO)
                F.add(n, other)

                def on_lst(self_, node):
                    R.counter += 1
                    node.elems.append(U.cls[f"{P}Leaf"](v=R.counter + 72000, origin=NO, create_detached=True))
                    return ASTTransformVisitor.generic_visit(self_, node)

                def on_last(self_, node):
                    raise RuntimeError("rule raised")

                v = type("RV3", (ASTTransformVisitor,), {f"visit_{P}Lst": on_lst, f"visit_{P}Leaf2": on_last})()
                try:
                    v.transform(other)  # rejected once already
                except Exception:  # noqa: BLE001
                    pass
                ctx.count("visitor_reused_after_rejection")
                return ("transform", "nested", n, [], lambda: v.transform(n))
            if kind == "rw_wrapper_reuses_child":
                # a detached wrapper that re-uses one of the receiver's own children (at another index) next to a node
                # that still belongs to another parent: the wrapper is refused
                a_, c_ = leaf(), leaf()
                inner = U.cls[f"{P}Un"](child=leaf(), origin=NO)
                block = U.cls[f"{P}List"](items=(a_, inner, c_), origin=NO)
                top = U.cls[f"{P}List"](items=(block,), origin=NO)
                x_ = leaf()
                other = U.cls[f"{P}Un"](child=x_, origin=NO)
                items = (inner, x_) if where != "last" else (x_, inner)
                wrapper = U.cls[f"{P}List"](items=items, origin=NO, create_detached=True)
                F.add(top, other, wrapper)
                ctx.count("wrapper_reusing_own_child")
                return ("replace_with_attach_fails", where, block, [wrapper], lambda: block.replace_with(wrapper))
            if kind == "rw_own_child":
                # hoisting a node's own child into its place: the child has a parent (the receiver), so this is refused;
                # here the receiver's own slot would not even accept the child's class
                inner = U.cls[f"{P}Un"](child=leaf(), origin=NO)
                wrap = U.cls[f"{P}Wrap"](inner=inner, v=R.counter + 60000, origin=NO)
                holder = U.cls[f"{P}Lst"](elems=[leaf()], opt=wrap, origin=NO) if rng.random() < 0.6 else U.cls[f"{P}List"](items=(leaf(), wrap), origin=NO)
                F.add(holder)
                ctx.count("replace_with_own_child")
                return ("replace_with", "first", wrap, [inner], lambda: wrap.replace_with(inner))
            if kind == "rw_wrong_class":
                c = [n for n in F.handles if not n.detached and n.parent is not None and n.parent_field.name == "opt"]
                if not c:
                    return None
                n = rng.choice(c)
                new = U.cls[f"{P}Un"](child=leaf(), origin=NO)
                F.add(new)
                return ("replace_with", "first", n, [new], lambda: n.replace_with(new))
            if kind == "rw_none_required":
                c = [n for n in F.handles if not n.detached and n.parent is not None and n.parent_field.name in ("child", "left")]
                if not c:
                    return None
                n = rng.choice(c)
                return ("replace_with", "first", n, [], lambda: n.replace_with(None))
            if kind == "rw_clone_of_attached":
                # new = detached clone (same ids) of an unrelated attached tree with children: its attach fails at a nested id
                n = rng.choice([h for h in F.handles if not h.detached] or F.handles)
                xs = [h for h in F.handles if not h.detached and h.parent is None and struct_children(U, h) and not (F.objs_of(h) & F.tree_objs_containing(n))]
                if not xs:
                    return None
                X = rng.choice(xs)
                new = X.duplicate(as_detached_clone=True)
                F.add(new)
                p = n.parent
                if p is not None:
                    f = next(f for f in U.child_fields(type(p).__name__) if f.name == n.parent_field.name)
                    if not isinstance(new, tuple(U.cls[t_] for t_ in f.types)):
                        return None
                ctx.count("nested_failing_element")
                return ("replace_with_attach_fails", "nested", n, [new], lambda: n.replace_with(new))
            if kind == "parent_collision_two":
                # two of the supplied children already belong to other parents
                cs = [h for h in F.handles if not h.detached and h.parent is not None]
                if len(cs) < 2:
                    return None
                c1, c2 = rng.sample(cs, 2)
                if id(c1) in F.objs_of(c2) or id(c2) in F.objs_of(c1):
                    return None
                seq = [leaf(), c1, leaf(), c2, leaf()]
                if where == "first":
                    seq = seq[1:]
                ctx.count("two_collided_children")
                return ("construct", where, None, seq, lambda: U.cls[f"{P}List"](items=tuple(seq), origin=NO))
            if kind == "rw_attach_fails":
                # new node is detached and one of its descendants' ids is taken by an attached node outside n's subtree
                if rng.random() < 0.4:
                    # a detached receiver without registered namesake: the rollback must leave it detached
                    det = [h for h in F.handles if h.detached and AwareASTNode.get_any(h.id) is None]
                    n = rng.choice(det) if det else rng.choice(F.handles)
                else:
                    n = rng.choice([h for h in F.handles if not h.detached] or F.handles)
                taken = [h for h in F.handles if not h.detached and id(h) not in F.objs_of(n)]
                if not taken:
                    return None
                t = rng.choice(taken)
                inner = U.cls[f"{P}Leaf"](v=1, origin=NO, id=t.id, create_detached=True)
                first = leaf()
                first.detach()
                new = U.cls[f"{P}List"](items=(first, inner) if where != "first" else (inner, first), origin=NO, create_detached=True)
                F.add(new)
                p = n.parent
                if p is not None:
                    f = next(f for f in U.child_fields(type(p).__name__) if f.name == n.parent_field.name)
                    if not isinstance(new, tuple(U.cls[t_] for t_ in f.types)):
                        return None
                ctx.count("nested_failing_element")
                return ("replace_with_attach_fails", where, n, [new, inner, first], lambda: n.replace_with(new))
            if kind in ("transform_raises", "transform_removes_required"):
                c = [n for n in F.handles if not n.detached and len(struct_subtree(U, n)) >= 2]
                if not c:
                    return None
                n = rng.choice(c)
                sub = struct_subtree(U, n)
                if kind == "transform_raises":
                    target = type(rng.choice(sub)).__name__

                    def rule(self_, node):
                        raise RuntimeError("rule raised")

                else:
                    req = [ch for x in sub for fn, ix, ch in struct_children(U, x) if next(f for f in U.child_fields(type(x).__name__) if f.name == fn).shape == "one"]
                    if not req:
                        return None
                    target = type(rng.choice(req)).__name__

                    def rule(self_, node):
                        return None

                rules = {f"visit_{target}": rule}
                # a second rule that really rewrites nodes visited *before* the failing one
                others = sorted({type(x).__name__ for x in sub if type(x).__name__ != target and U.prop_fields(type(x).__name__)})
                if others:
                    oc = rng.choice(others)
                    if f"{P}Seq" in others and rng.random() < 0.6:
                        oc = f"{P}Seq"
                    touch = rng.random() < 0.6

                    def rewrite(self_, node):
                        R.counter += 1
                        if touch:
                            # the rule receives a detached copy: replacing children of that copy is harmless for the input tree
                            for _fn, _ix, ch in struct_children(U, node):
                                if hasattr(ch, "v"):
                                    ch.replace(v=R.counter + 40000)
                                    ctx.count("rule_replaces_children_of_its_copy")
                        g = ASTTransformVisitor.generic_visit(self_, node)
                        return g.replace(v=R.counter + 30000) if g is not None and hasattr(g, "v") else g

                    rules[f"visit_{oc}"] = rewrite
                V = type("RV", (ASTTransformVisitor,), rules)
                return ("transform", "nested", n, [], lambda: V().transform(n))
            if kind == "transform_runtime_children":
                # children held by a field that is a child field only at run time; the rule for their parent works on the
                # children of the copy it receives; a later sibling's rule raises
                seq = U.cls[f"{P}Seq"](elems=tuple(leaf() for _ in range(rng.randint(1, 3))), origin=NO)
                last = U.cls[f"{P}Leaf2"](v=R.counter + 50000, origin=NO)
                sibs = [seq, last] if where != "first" else [last, seq]
                n = U.cls[f"{P}List"](items=tuple(sibs), origin=NO)
                F.add(n)

                def on_seq(self_, node):
                    for ch in node.elems:
                        R.counter += 1
                        ch.replace(v=R.counter + 40000)
                    return ASTTransformVisitor.generic_visit(self_, node)

                def on_last(self_, node):
                    raise RuntimeError("rule raised")

                V = type("RV2", (ASTTransformVisitor,), {f"visit_{P}Seq": on_seq, f"visit_{P}Leaf2": on_last})
                ctx.count("runtime_only_child_field_transform")
                return ("transform", "nested", n, [], lambda: V().transform(n))
            if kind == "transformer_raises":
                c = [n for n in F.handles if not n.detached and n.parent is None and len(struct_subtree(U, n)) >= 3]
                if not c:
                    return None
                n = rng.choice(c)
                x = attached_with_parent()
                if x is None or id(x) in F.objs_of(n):
                    return None
                victims = [y for y in struct_subtree(U, n)[1:] if not struct_children(U, y)]
                if not victims:
                    return None
                victim = rng.choice(victims)

                class T(ASTTransformer):
                    def transform(self, node):
                        if node is victim:
                            return x  # a node that has another parent -> replace_with must refuse
                        return node

                return ("transformer_execute", "nested", n, [x, victim], lambda: T().execute(n))
            return None

        def classify(opname, ename, diff, recv, args, before):
            """Mechanism of a frame difference. Three recorded mechanisms (see known_findings.json) are recognised
            narrowly: which nodes changed (by their role in the call) and which observables; anything else keeps a
            specific mechanism name and is reported."""
            recv_sub = {id(x) for x in struct_subtree(U, recv)} if recv is not None else set()
            recv_kids = {id(c) for _, _, c in struct_children(U, recv)} if recv is not None else set()
            arg_nodes = [a for a in args if hasattr(a, "detached")]
            arg_sub = set()
            for a in arg_nodes:
                arg_sub |= {id(x) for x in struct_subtree(U, a)}
            arg_ids = {x.id for a in arg_nodes for x in struct_subtree(U, a)}
            roles = []
            reg_only_args = True
            for dd in diff:
                if dd["node"] == "<registry>":
                    if dd["removed"] or dd["other_object"] or any(k not in arg_ids and not any(k == x.id for x in F.handles if id(x) in (arg_sub | (recv_sub if opname == "attach" else set()))) for k in dd["added"]):
                        reg_only_args = False
                    roles.append(("registry", tuple(dd["changed"])))
                    continue
                k = dd["obj"]
                role = "other"
                had_parent = before["nodes"][k][1] is not None
                if recv is not None and k == id(recv):
                    role = "receiver"
                elif k in arg_sub:
                    # the recorded mechanisms concern arguments that were free (no parent) and got (partly) attached;
                    # an argument that *had* a parent elsewhere and changed is something else
                    role = "argument-with-parent" if (had_parent and k not in recv_kids) else "argument-subtree"
                elif k in recv_kids:
                    role = "child-of-receiver"
                elif k in recv_sub:
                    role = "descendant-of-receiver"
                roles.append((role, tuple(sorted(dd["changed"]))))
            link = {"parent", "parent_field", "parent_index"}
            partial = link | {"attached_flag", "content_id"}
            rs = set(r for r, _ in roles)
            generic = f"{opname}|{ename}|" + ";".join(sorted(f"{r}:{','.join(o)}" for r, o in set(roles)))
            if opname == "replace" and ename in ("ASTNodeDuplicateChildrenError", "ASTNodeParentCollisionError", "ASTNodeRegistryCollisionError"):
                # the recorded mechanism loses the links of the receiver's children that the failed construction had not
                # yet adopted: children that come, in child order of the new value, before the first child that could
                # have failed (one that was detached or had another parent) are adopted and must be found unchanged
                if before["nodes"][id(recv)][0]:
                    # ... and it concerns attached receivers only (their detach_self() is what clears the links): a receiver
                    # that was detached already has nothing cleared, so nothing at all may differ afterwards
                    ctx.count("detached_receiver_rejections")
                    return generic + "|receiver-was-detached", roles
                # duplicates - two children carrying one node id, the same object twice or two objects - are detected before
                # any child is adopted: the supplied children come out exactly as they went in
                fname_, val_ = R.last_replace
                new_ids = []
                for fld in U.child_fields(type(recv).__name__):
                    v = val_ if fld.name == fname_ else getattr(recv, fld.name)
                    new_ids += [c.id for c in ([] if v is None else list(v) if isinstance(v, (list, tuple)) else [v])]
                if len(set(new_ids)) != len(new_ids):
                    ctx.count("duplicate_ids_arguments_checked")
                    if any(dd.get("obj") in arg_sub and dd.get("obj") not in recv_sub for dd in diff if dd["node"] != "<registry>"):
                        return generic + "|supplied-child-changed-although-duplicates-are-detected-up-front", roles
                # supplied children that come, in child order (fields in declaration order), after the first child that has
                # another parent are never reached: they come out unchanged
                extra_ = getattr(R, "last_replace_extra", None) or {}
                if ename == "ASTNodeParentCollisionError":
                    seq_all = []
                    for fld in U.child_fields(type(recv).__name__):
                        v = val_ if fld.name == fname_ else extra_.get(fld.name, getattr(recv, fld.name))
                        seq_all += [] if v is None else list(v) if isinstance(v, (list, tuple)) else [v]
                    first_bad = next((i for i, c in enumerate(seq_all) if (before["nodes"].get(id(c)) or (0, None))[1] not in (None, id(recv)) and not (before["nodes"].get(id(c)) or (True,))[0]), None)
                    if first_bad is not None:
                        later = {id(x) for c in seq_all[first_bad + 1:] for x in struct_subtree(U, c)} - {id(x) for c in seq_all[: first_bad + 1] for x in struct_subtree(U, c)} - recv_sub
                        if later:
                            ctx.count("supplied_children_after_the_failure_checked")
                            if any(dd.get("obj") in later for dd in diff):
                                return generic + "|supplied-child-after-the-failing-one-changed", roles
                safe = set()
                if ename != "ASTNodeDuplicateChildrenError":  # duplicates are detected before any child is adopted
                    fname, val = R.last_replace
                    for fld in U.child_fields(type(recv).__name__):
                        v = val if fld.name == fname else getattr(recv, fld.name)
                        seq = [] if v is None else list(v) if isinstance(v, (list, tuple)) else [v]
                        stop = False
                        for c in seq:
                            b = before["nodes"].get(id(c))
                            if b is None or b[0] or (b[1] is not None and b[1] != id(recv)):
                                stop = True
                                break
                            if b[1] == id(recv):
                                safe.add(id(c))
                        if stop:
                            break
                if any(dd.get("obj") in safe for dd in diff):
                    ctx.count("adopted_children_checked")
                    return generic + "|child-adopted-before-the-failure-changed", roles
                if safe:
                    ctx.count("adopted_children_checked")
                ok = reg_only_args and all(
                    (r == "child-of-receiver" and set(o) <= link) or (r == "argument-subtree" and set(o) <= partial) or r == "registry" for r, o in roles
                )
                return ("replace-rollback-loses-child-links" if ok else generic), roles
            if opname in ("construct", "attach") and ename in ("ASTNodeParentCollisionError", "ASTNodeRegistryCollisionError"):
                if opname == "construct":
                    # children that come after the last child that could have failed are never reached
                    flat = [a for a in args if hasattr(a, "detached")]
                    susp = [i for i, a in enumerate(flat) if (before["nodes"].get(id(a)) or (True,))[0] or (before["nodes"].get(id(a)) or (0, 1))[1] is not None]
                    if susp:
                        untouched = {id(x) for a in flat[max(susp) + 1:] for x in struct_subtree(U, a)} - {id(x) for a in flat[: max(susp) + 1] for x in struct_subtree(U, a)}
                        ctx.count("children_after_the_failure_checked")
                        if any(dd.get("obj") in untouched for dd in diff):
                            return generic + "|child-after-the-failing-one-changed", roles
                sub_role = {"argument-subtree"} if opname == "construct" else {"child-of-receiver", "descendant-of-receiver"}
                ok = reg_only_args and all((r in sub_role and set(o) <= partial) or r == "registry" for r, o in roles)
                return ("partial-attach-not-rolled-back" if ok else generic), roles
            if opname == "replace_with_attach_fails" and ename == "ASTNodeReplaceWithError":
                # extent of the recorded mechanism: the attach of `new` walks its subtree in pre-order and stops at the
                # first node whose id is taken; nodes that come later in that order were never reached
                new_root = next((a for a in args if hasattr(a, "detached")), None)
                # ... and it concerns the *detached* nodes of 'new' only: a node below 'new' that was attached before the
                # call (e.g. a child of the receiver re-used by a wrapper) must come out exactly as it went in
                if any(dd.get("obj") in arg_sub and not before["nodes"][dd["obj"]][0] for dd in diff if dd["node"] != "<registry>"):
                    return generic + "|attached-node-below-new-changed", roles
                if new_root is not None:
                    order = struct_subtree(U, new_root)
                    reg0 = before["registry"]
                    stop = next((i for i, x in enumerate(order) if i > 0 and (before["nodes"].get(id(x)) or (False,))[0] and reg0.get(before["nodes"][id(x)][5]) not in (None, id(x))), None)
                    if stop is not None:
                        # nodes between 'new' and the failing descendant are mid-descent when the failure occurs: they were
                        # given nothing yet (links are set after a child's own subtree went in), so they come out unchanged
                        par = {}
                        for x_ in order:
                            for _fn, _ix, c_ in struct_children(U, x_):
                                par.setdefault(id(c_), x_)
                        above = set()
                        q_ = par.get(id(order[stop]))
                        while q_ is not None and q_ is not new_root:
                            above.add(id(q_))
                            q_ = par.get(id(q_))
                        if above:
                            ctx.count("nodes_above_failing_descendant_checked")
                            if any(dd.get("obj") in above for dd in diff):
                                return generic + "|node-above-the-failing-descendant-changed", roles
                        ctx.count("nodes_after_failing_descendant_checked")
                        late = {id(x) for x in order[stop + 1:]} - {id(x) for x in order[: stop + 1]}
                        if any(dd.get("obj") in late for dd in diff):
                            return generic + "|node-after-the-failing-descendant-changed", roles
                ok = reg_only_args and all((r == "argument-subtree" and set(o) <= partial | {"id", "original_id"}) or r == "registry" for r, o in roles)
                return ("replace_with-failed-attach-keeps-new-node-changes" if ok else generic), roles
            return generic, roles

        done = 0
        tries = 0
        while done < ctx.params["rejects"] and tries < ctx.params["rejects"] * 5:
            tries += 1
            g = gen_reject()
            if g is None:
                continue
            opname, where, recv, args, thunk = g
            before = F.frame()
            pre_existing = {id(h) for h in F.handles}
            signal.setitimer(signal.ITIMER_REAL, 20.0)
            exc = None
            try:
                res = thunk()
            except OpTimeout:
                ctx.count("aborted_timeout")
                break
            except DOCUMENTED as e:
                exc = e
            except Exception as e:  # noqa: BLE001
                ctx.count(f"undocumented_{type(e).__name__}")
                ex = ctx.extra.setdefault("undocumented", [])
                if len(ex) < 10:
                    ex.append({"op": opname, "error": f"{type(e).__name__}: {e}"[:200], "tb": traceback.format_exc()[-400:]})
                # the operation instance is one the library is documented to reject; it was refused, with another error than
                # the documented one - that alone is outside the property's words, nodes changed by the refused call are not
                signal.setitimer(signal.ITIMER_REAL, 0)
                diff = F.frame_diff(before)
                if diff:
                    ctx.violation(f"{opname}|undocumented:{type(e).__name__}|nodes-changed", f"a refused {opname} (raised {type(e).__name__} instead of its documented error) changed pre-existing nodes", {"operation": opname, "error": f"{type(e).__name__}: {e}"[:200], "receiver": desc(recv), "changes": diff[:6], "history": R.log[-8:]})
                break
            finally:
                signal.setitimer(signal.ITIMER_REAL, 0)
            if exc is None and opname == "replace_with_must_reject":
                ctx.violation("replace_with-accepted-node-with-parent", "replace_with() accepted a replacement that already has a parent (documented: ASTNodeReplaceWithError)", {"receiver": desc(recv), "replacement": [desc(a) for a in args if hasattr(a, "detached")]})
                break
            if exc is None:
                ctx.count(f"not_rejected_{opname}")
                if hasattr(res, "detached"):
                    F.add(res)
                if F.check(deep=False) is not None:
                    break
                continue
            done += 1
            ename = type(exc).__name__
            ctx.evaluations += 1
            ctx.count(f"rejected_{ename}")
            ctx.count("frames_compared")
            if where != "first":
                ctx.count("failing_element_not_first")
            ctx.fp((opname, ename, where, type(recv).__name__ if recv is not None else "-", "det" if (recv is not None and recv.detached) else "att" if recv is not None else "-",
                    tuple(type(a).__name__ for a in args if hasattr(a, "detached"))[:4], len(F.handles) // 5))
            if done <= 2 and case == 0 and ctx.shard == 0:
                ctx.sample({"operation": opname, "error": ename, "failing_element": where, "receiver": desc(recv), "args": [desc(a) for a in args if hasattr(a, "detached")]})
            diff = F.frame_diff(before)
            if diff:
                mech, roles = classify(opname, ename, diff, recv, args, before)
                ctx.violation(mech, f"a rejected {opname} ({ename}) changed pre-existing nodes", {"operation": opname, "error": ename, "failing_element": where, "receiver": desc(recv), "roles_changed": roles, "changes": diff[:6], "history": R.log[-8:]})
                break
            # the forest must still be consistent for the next rejection
        ctx.count("histories")
