"""C17 — XPath and pattern text is either compiled or rejected with the definition error.

Totality fuzz + REF: every generated text goes through ASTXpath, validate_pattern,
NodeMatcher.from_pattern and MultiPatternMatcher; the outcome of each entry point is
classified (accepted / definition error / other exception). Well-formed texts must
be accepted and keep their behaviour vector (on a fixed panel of trees) under
inter-token whitespace and recompilation; ill-formed ones must be rejected with the
definition error; nothing else may escape.
"""
from __future__ import annotations

import random
import sys

from vlib import gen as G
from vlib import refpattern as RP
from vlib import refxpath as RX
from vlib.spec import S, build, preorder, spec_json
from vlib.universe import core_universe

LEVEL = "exploration"
RULE = (
    "texts: (1) grammar-derived well-formed xpaths and patterns (rendered from ASTs, incl. classes defined only later in "
    "the run), (2) their re-renderings with blanks / tabs / newlines between tokens, (3) single-token mutations (delete, "
    "duplicate, swap neighbours, replace by a token of another kind), (4) semantic faults: unknown class, non-node "
    "serializable class (CodeOrigin, TextSource, a legacy node class), duplicate capture name, variable before (or inside "
    "the value of) its capture, invalid regex, (5) random strings over the grammars' alphabets incl. quotes, backslashes, "
    "non-ASCII, the empty string, long class alternations; each text is compiled repeatedly (cached, cache entry removed, "
    "other texts in between); non-trivial = text of >= 2 tokens; distinct = distinct texts"
)
ASSUMPTIONS = ["an invalid regular expression inside a pattern counts as a reported definition error, not as a well-formed text"]
MUST_SEE = ["one_regex_literal_under_several_capture_names", "class_object_that_is_falsy", "edge_whitespace_characters", "payloads_naming_unknown_class_read_before", "syntax_error_next_to_format_characters", "regex_unpaired_brackets", "regex_engine_limit_literals", "regex_inner_whitespace", 
    "xpath_accepted", "xpath_rejected", "pattern_accepted", "pattern_rejected", "mutations_still_valid", "whitespace_variants", "recompiles_cold",
    "recompiles_hot", "unknown_class", "non_node_class", "duplicate_capture", "var_before_capture", "var_inside_own_capture", "random_strings", "late_defined_class", "compile_after_rejected", "escaped_quote_regexes",
]
CONFIG = {
    "quick": {"shards": 16, "rounds": 500, "watchdog_s": 600},
    "thorough": {"shards": 32, "rounds": 2500, "watchdog_s": 3400},
}

WS = ["", " ", "  ", "\t", "\n", " \n ", "\r\n"]
X_ALPHA = list("/@[]0123456789 _") + ["ULeaf", "UBin", "child", "items", "//", "é", '"', "\\", "(", "*", "|", "-", ">"]
P_ALPHA = list("()@=[]*$|->\"\\ _") + ["ULeaf", "UBin", "UList", "None", "v", "s", "items", "left", "->", "a", "b", "é", "\n", "'", ".*", "(", ")"]


def run_shard(ctx):
    sys.setrecursionlimit(20000)
    import pyoak.legacy.node  # noqa: F401  (registers legacy classes in TYPES)
    from pyoak.match import pattern as PM
    from pyoak.match import xpath as XM
    from pyoak.match.error import ASTPatternDefinitionError, ASTXpathDefinitionError
    from pyoak.match.pattern import MultiPatternMatcher, NodeMatcher, validate_pattern
    from pyoak.match.xpath import ASTXpath
    from pyoak.node import ASTNode

    U = core_universe()
    P = U.P
    classes = dict(U.cls)
    classes["ASTNode"] = ASTNode
    class_names = list(U.order)
    field_names = sorted({f.name for c in U.order for f in U.child_fields(c)})

    # ---- (in half of the shards) payloads naming a class that does not exist were read - and refused - earlier in the process:
    # a name met in data does not become a class that texts may name
    if ctx.shard % 2 == 0:
        for payload in (
            {"__type": "NoSuchClass", "id": "c17a", "content_id": "c", "origin": {}},
            {"__type": f"{P}Un", "id": "c17b", "content_id": "c", "origin": {}, "op": "-", "child": {"__type": "NoSuchClass", "id": "c17c", "content_id": "c", "origin": {}}},
        ):
            for C_ in (ASTNode, U.cls[f"{P}Un"], U.cls[f"{P}Leaf"]):
                try:
                    r_ = C_.as_obj(payload)
                    r_.detach()
                except Exception:  # noqa: BLE001
                    pass
        ctx.count("payloads_naming_unknown_class_read_before")

    # ---- fixed panel
    prng = random.Random("c17-panel")
    tg = G.TreeGen(prng, U, max_nodes=14, max_depth=5, max_width=4, share=0.0, twin=0.2, p_origin=0.2, hostile=0.0)
    panel_specs = [tg.tree() for _ in range(8)]
    panel_specs.append(S(f"{P}List", {}, {"items": tuple(S(f"{P}Leaf", {"v": i}) for i in range(12))}))
    panel = [build(U, s) for s in panel_specs]
    panel_nodes = []
    panel_pos = []
    for s, r in zip(panel_specs, panel):
        pos = preorder(U, s)
        panel_pos.append(pos)
        for p in pos:
            n = r
            for fn, ix in p.path:
                n = getattr(n, fn)
                if ix is not None:
                    n = n[ix]
            panel_nodes.append(n)
    node_index = {id(n): i for i, n in enumerate(panel_nodes)}
    ws_leaves = [U.cls[f"{P}Leaf"](v=i, s=x) for i, x in enumerate(("a b", "a  b", "a\tb", "ab", " a b", "a b ", "a   b"))]

    def fields_of(n):
        return [f.name for f in U.all_fields(type(n).__name__) if f.name not in ("id", "content_id", "origin")]

    def class_choices(n):
        return [c.__name__ for c in type(n).__mro__ if c.__name__ in U.specs]

    def bad(mech, what, **d):
        ctx.violation(mech, what, d)

    # ------------------------------------------------------------------ entry points
    def xpath_outcome(text):
        try:
            xp = ASTXpath(text)
        except ASTXpathDefinitionError:
            return ("reject", None)
        except Exception as e:  # noqa: BLE001
            import traceback

            return ("other", f"{type(e).__name__}: {e}"[:200] + " | " + traceback.format_exc()[-300:])
        try:
            vec = []
            for r in panel:
                got = list(xp.findall(r))
                vec.append(tuple(sorted(node_index.get(id(n), -1) for n in got)))
                if got:
                    xp.match(r, got[0])
            return ("accept", tuple(vec))
        except Exception as e:  # noqa: BLE001
            return ("other", f"accepted xpath unusable: {type(e).__name__}: {e}"[:300])

    def pattern_vec(m):
        vec = []
        for n in panel_nodes[::2]:
            ok, caps = m.match(n)
            vec.append((ok, tuple(sorted(caps))))
        return tuple(vec)

    def pattern_outcomes(text):
        """(validate, from_pattern, multi) outcome classes + behaviour vector"""
        outs = []
        vec = None
        try:
            ok, msg = validate_pattern(text)
            outs.append("accept" if ok is True else "reject" if ok is False and isinstance(msg, str) else "other")
        except Exception as e:  # noqa: BLE001
            outs.append(f"other:{type(e).__name__}: {e}"[:150])
        try:
            m, msg = NodeMatcher.from_pattern(text)
            if m is not None:
                outs.append("accept")
                try:
                    vec = pattern_vec(m)
                except ASTPatternDefinitionError:
                    vec = "match-raised-definition-error"
                except Exception as e:  # noqa: BLE001
                    outs[-1] = f"other:match raised {type(e).__name__}: {e}"[:150]
            else:
                outs.append("reject" if isinstance(msg, str) else "other")
        except Exception as e:  # noqa: BLE001
            outs.append(f"other:{type(e).__name__}: {e}"[:150])
        try:
            MultiPatternMatcher([("r", text)])
            outs.append("accept")
        except ASTPatternDefinitionError:
            outs.append("reject")
        except Exception as e:  # noqa: BLE001
            outs.append(f"other:{type(e).__name__}: {e}"[:150])
        return outs, vec

    def check_pattern(text, expect, tag):
        ctx.evaluations += 1
        if len(text.split()) >= 2 or len(text) > 3:
            ctx.fp(("p", text))
        outs, vec = pattern_outcomes(text)
        if any(o.startswith("other") for o in outs):
            bad("pattern-other-exception", "a pattern entry point let something other than the definition error escape", text=text, outcomes=outs, kind=tag)
            return None, None
        if len(set(outs)) != 1:
            bad("pattern-entry-points-disagree", "validate_pattern / from_pattern / MultiPatternMatcher disagree on acceptance", text=text, outcomes=outs, kind=tag)
            return None, None
        ctx.count("pattern_accepted" if outs[0] == "accept" else "pattern_rejected")
        if expect is not None and outs[0] != expect:
            bad("pattern-wrong-verdict", f"expected {expect}, got {outs[0]}", text=text, kind=tag)
        return outs[0], vec

    def check_xpath(text, expect, tag):
        ctx.evaluations += 1
        if len(text) > 3:
            ctx.fp(("x", text))
        o, vec = xpath_outcome(text)
        if o == "other":
            bad("xpath-other-exception", "ASTXpath let something other than ASTXpathDefinitionError escape (or an accepted xpath is unusable)", text=text, error=vec, kind=tag)
            return None, None
        ctx.count("xpath_accepted" if o == "accept" else "xpath_rejected")
        if expect is not None and o != expect:
            bad("xpath-wrong-verdict", f"expected {expect}, got {o}", text=text, kind=tag)
        return o, vec

    def recompile_pattern(text, vec0, rng):
        mode = rng.choice(["hot", "cold", "cold-after-others"])
        if mode != "hot":
            PM._MATCHER_CACHE.pop(text, None)
            ctx.count("recompiles_cold")
        else:
            ctx.count("recompiles_hot")
        if mode == "cold-after-others":
            NodeMatcher.from_pattern(f"({P}Leaf @v -> zz)")
            NodeMatcher.from_pattern(f"(* @s -> zz @v -> yy)")
        m, _ = NodeMatcher.from_pattern(text)
        if m is None:
            bad("recompile", f"a pattern accepted before is rejected when compiled again ({mode})", text=text)
        else:
            try:
                same = pattern_vec(m) == vec0
            except Exception as e:  # noqa: BLE001
                bad("recompile", f"a pattern that compiled and matched before raises when compiled again and used ({mode}): {type(e).__name__}: {e}"[:300], text=text)
                return
            if not same:
                bad("recompile", f"behaviour changed when the same pattern text was compiled again ({mode})", text=text)

    def recompile_xpath(text, vec0, rng):
        mode = rng.choice(["hot", "cold"])
        if mode == "cold":
            XM._AST_XPATH_CACHE.pop(text, None)
            ctx.count("recompiles_cold")
        else:
            ctx.count("recompiles_hot")
        o, vec = xpath_outcome(text)
        if o != "accept" or vec != vec0:
            bad("recompile", f"behaviour changed when the same xpath text was compiled again ({mode})", text=text)

    # ------------------------------------------------------------------ generators
    def xpath_tokens(path, relative):
        toks = []
        for k, st in enumerate(path):
            anywhere, field, index, cls = st
            if not (k == 0 and relative and anywhere):
                toks.append("/")
                if anywhere:
                    toks.append("/")
            if field is not None:
                toks += ["@", field]
            if index is not None:
                toks += ["["] + ([] if index == "any" else [str(index)]) + ["]"]
            if cls is not None:
                toks.append(cls)
        return toks

    def join_x(toks, sep):
        out = ""
        prev = None
        for tk in toks:
            s = sep() if prev is not None else ""
            if prev is not None and s == "" and (prev[-1].isalnum() or prev[-1] == "_") and (tk[0].isalnum() or tk[0] == "_"):
                s = " "
            out += s + tk
            prev = tk
        return out

    late_counter = [0]
    for rnd in ctx.cases(ctx.params["rounds"]):
        rng = ctx.rng(rnd)
        # ================================================= xpaths
        r = panel_specs[rng.randrange(len(panel_specs))]
        pos = panel_pos[panel_specs.index(r)]

        def cls_choices_pos(p):
            return [c for c in U.mro(p.spec.cls)]

        path = RX.gen_path(rng, pos, field_names, class_names + ["ASTNode"], cls_choices_pos)
        relative = path[0][0] and rng.random() < 0.4
        toks = xpath_tokens(path, relative)
        text = join_x(toks, lambda: "")
        o, vec = check_xpath(text, "accept", "well-formed")
        if o == "accept":
            if rnd == 0 and ctx.shard == 0:
                ctx.sample({"xpath": text})
            t2 = join_x(toks, lambda: rng.choice(WS))
            if t2 != text:
                ctx.count("whitespace_variants")
                o2, vec2 = check_xpath(t2, "accept", "whitespace")
                if o2 == "accept" and vec2 != vec:
                    bad("whitespace", "whitespace between tokens changed the meaning of an xpath", text=text, variant=t2)
            recompile_xpath(text, vec, rng)
        # token mutations
        for _ in range(2):
            mt = list(toks)
            op = rng.choice(["delete", "duplicate", "swap", "replace"])
            i = rng.randrange(len(mt))
            if op == "delete":
                del mt[i]
            elif op == "duplicate":
                mt.insert(i, mt[i])
            elif op == "swap" and len(mt) > 1:
                j = (i + 1) % len(mt)
                mt[i], mt[j] = mt[j], mt[i]
            else:
                mt[i] = rng.choice(["/", "@", "[", "]", "7", "NoSuchClass", f"{P}Leaf", "child", "*", "(", "->"])
            mtext = join_x(mt, lambda: "") if mt else ""
            o3, _ = check_xpath(mtext, None, "token-mutation")
            if o3 == "accept":
                ctx.count("mutations_still_valid")
        # class faults
        bad_cls = rng.choice(["NoSuchClass", "CodeOrigin", "TextSource", "AwareASTNode", "NoOrigin", "CodePoint"])
        ctx.count("unknown_class" if bad_cls == "NoSuchClass" else "non_node_class")
        check_xpath(f"//{bad_cls}", "reject", "class-fault")
        check_xpath(f"/{P}List/@items[1]{bad_cls}", "reject", "class-fault")
        # random strings
        ctx.count("random_strings", 2)
        check_xpath("".join(rng.choice(X_ALPHA) for _ in range(rng.randint(0, 14))), None, "random")
        # ================================================= patterns
        node = panel_nodes[rng.randrange(len(panel_nodes))]
        pg = RP.PatGen(rng, U, fields_of, class_choices, class_names)
        t = pg.tree_for(node, rng.choice([1, 2, 3]))
        ptoks = RP.tokens(t)
        ptext = RP.join_tokens(ptoks, lambda: " ")
        o, vec = check_pattern(ptext, "accept", "well-formed")
        if o == "accept":
            if rnd == 0 and ctx.shard == 0:
                ctx.sample({"pattern": ptext})
            v2 = RP.join_tokens(ptoks, lambda: rng.choice(WS))
            if v2 != ptext:
                ctx.count("whitespace_variants")
                o2, vec2 = check_pattern(v2, "accept", "whitespace")
                if o2 == "accept" and vec2 != vec:
                    bad("whitespace", "whitespace between tokens changed the meaning of a pattern", text=ptext, variant=v2)
            recompile_pattern(ptext, vec, rng)
        for _ in range(2):
            mt = list(ptoks)
            op = rng.choice(["delete", "duplicate", "swap", "replace"])
            i = rng.randrange(len(mt))
            if op == "delete":
                del mt[i]
            elif op == "duplicate":
                mt.insert(i, mt[i])
            elif op == "swap" and len(mt) > 1:
                j = (i + 1) % len(mt)
                mt[i], mt[j] = mt[j], mt[i]
            else:
                mt[i] = rng.choice(["(", ")", "@", "=", "[", "]", "*", "$", "->", "|", "None", '"x"', "v", f"{P}Leaf", "NoSuchClass", "a"])
            o3, _ = check_pattern(RP.join_tokens(mt, lambda: " ") if mt else "", None, "token-mutation")
            if o3 == "accept":
                ctx.count("mutations_still_valid")
        # semantic faults
        ctx.count("unknown_class" if bad_cls == "NoSuchClass" else "non_node_class")
        check_pattern(f"({bad_cls})", "reject", "class-fault")
        check_pattern(f"({P}Bin @left=({bad_cls} @v) -> x)", "reject", "class-fault")
        check_pattern(f"({P}Leaf|{bad_cls})", "reject", "class-fault")
        # ... also when the faulty name comes after the base class (which alone would match everything) or in the middle
        check_pattern(f"(ASTNode | {bad_cls})", "reject", "class-fault")
        check_pattern(f"({P}Leaf | ASTNode | {bad_cls})", "reject", "class-fault")
        check_pattern(f"({P}Un @child=(ASTNode|{bad_cls}|{P}Leaf))", "reject", "class-fault")
        check_pattern(f"(ASTNode | {P}Leaf)", "accept", "class-ok")
        ctx.count("duplicate_capture")
        check_pattern(f"({P}Bin @left -> a @right -> a)", "reject", "duplicate-capture")
        check_pattern(f"({P}List @items=[(*) -> a * -> a])", "reject", "duplicate-capture")
        check_pattern(f"({P}Bin @left=({P}Leaf @v -> a) @op -> a)", "reject", "duplicate-capture")
        # the same name captured inside two textually identical sub-patterns, inside a sequence, two levels apart
        check_pattern(f"({P}Bin @left=({P}Leaf @s -> a) @right=({P}Leaf @s -> a))", "reject", "duplicate-capture")
        check_pattern(f"({P}List @items=[({P}Leaf @v -> a) ({P}Leaf @v -> a)])", "reject", "duplicate-capture")
        check_pattern(f"({P}Bin @op -> a @left=({P}Un @child=({P}Leaf @v -> a)))", "reject", "duplicate-capture")
        # ... while identical sub-patterns without a clash, and a use after a capture at an outer level, are fine
        check_pattern(f"({P}Bin @left=({P}Leaf @s -> a) @right=({P}Leaf @s -> b))", "accept", "capture-ok")
        check_pattern(f"({P}Bin @left=({P}Leaf @s=\"x\") @right=({P}Leaf @s=\"x\"))", "accept", "capture-ok")
        check_pattern(f"({P}Bin @op -> t @right=({P}Leaf @s=$t))", "accept", "capture-ok")
        check_pattern(f"({P}Bin @left=({P}Leaf @s -> t) @right=({P}Un @child=({P}Leaf @s=$t)))", "accept", "capture-ok")
        ctx.count("var_before_capture")
        check_pattern(f"({P}Bin @left=$a @right -> a)", "reject", "var-before-capture")
        check_pattern(f"({P}List @items=[$a (*) -> a])", "reject", "var-before-capture")
        ctx.count("var_inside_own_capture")
        check_pattern(f"({P}Bin @left=$c -> c)", "reject", "var-inside-own-capture")
        check_pattern(f"({P}Bin @left=({P}Un @child=$c) -> c)", "reject", "var-inside-own-capture")
        check_pattern(f"({P}List @items=[(*) $c *] -> c)", "reject", "var-inside-own-capture")
        check_pattern(f'({P}Leaf @s="(unclosed")', "reject", "invalid-regex")
        check_pattern(f'({P}Leaf @s="*a")', "reject", "invalid-regex")
        # a rejected definition must leave nothing behind: the next compile may re-use its capture names,
        # and a variable without capture is still rejected
        for rejected in (f"({P}Bin @left -> keep @right=(NoSuchClass))", f"({P}Bin @left -> keep @op -> keep)", f"({P}List @items=[(*) -> keep $nope])"):
            ctx.count("compile_after_rejected")
            check_pattern(rejected, "reject", "leak-setup")
            if rng.random() < 0.5:
                check_pattern(f"({P}Leaf @v -> keep)", "accept", "after-rejected-reuse")
            else:
                check_pattern(f"({P}Bin @left=$keep)", "reject", "after-rejected-var")
        # regexes containing escaped quotes (grammatical ESCAPED_STRINGs whose regex compiles)
        for rx in ('a\\"', '\\"x\\"', 'say \\"hi\\"', '\\"', 'x\\\\', '[\\"a]+'):
            ctx.count("escaped_quote_regexes")
            check_pattern(f'({P}Leaf @s="{rx}")', "accept", "escaped-quote-regex")
        # syntax errors next to text with braces / percent signs / backslashes (whatever the error message is built with)
        for frag in ('@s="^ab{2}c$"', '@s="x{1,2}y"', '@s="{0}{name}"', '@s="100%s %d"', '@s="a\\\\b{"'):
            for tail in (" @)", " -> )", " ]", " @v=)", ")) extra", " $"):
                ctx.count("syntax_error_next_to_format_characters")
                check_pattern(f"({P}Leaf {frag}{tail}", "reject", "format-characters-in-rejected-text")
        # characters at the edges of the text that str.strip() takes for white space and the grammar may not: whatever the
        # verdict, the three entry points give the same one (interior and regex positions as controls)
        for ch in ("\x0b", "\xa0", "\x85", "\x1c", "\u2003", "\x0c", "\ufeff", "\x1f", "\u200b", "\t", "\r\n"):
            for text in (ch + f"({P}Leaf @v -> a)", f"({P}Leaf @v -> a)" + ch, ch + f"({P}Leaf)" + ch, f"({P}Leaf{ch}@v -> a)", f'({P}Leaf @s="a{ch}b")'):
                ctx.count("edge_whitespace_characters")
                check_pattern(text, None, "edge-whitespace")
            for text in (ch + f"//{P}Leaf", f"//{P}Leaf" + ch):
                check_xpath(text, None, "edge-whitespace")
        # one regex literal under different capture names (and without one) in definitions compiled one after the other: every
        # compiled matcher keeps the captures of its own text
        for rx in (".*", "^$|^a", "[0-9]*"):
            t1, t2, t3 = f'({P}Leaf @s="{rx}" -> first)', f'({P}Leaf @s="{rx}" -> second)', f'({P}Leaf @s="{rx}")'
            m1 = NodeMatcher.from_pattern(t1)[0]
            v1 = pattern_vec(m1) if m1 is not None else None
            m2 = NodeMatcher.from_pattern(t2)[0]
            m3 = NodeMatcher.from_pattern(t3)[0]
            ctx.evaluations += 1
            ctx.count("one_regex_literal_under_several_capture_names")
            if None in (m1, m2, m3):
                bad("pattern-wrong-verdict", "a well-formed pattern was rejected", text=t1)
                continue
            names = lambda vec: {n for ok_, caps_ in vec for n in caps_}  # noqa: E731
            if pattern_vec(m1) != v1 or names(pattern_vec(m1)) - {"first"} or names(pattern_vec(m2)) - {"second"} or names(pattern_vec(m3)) or not names(v1):
                bad("recompile", "matchers compiled from texts that share a regex literal under different capture names do not keep their own captures", text=t1, first=sorted(names(pattern_vec(m1))), second=sorted(names(pattern_vec(m2))), none=sorted(names(pattern_vec(m3))))
        # a node class whose class object is falsy (its metaclass counts instances: len(cls) == 0) is a class like any other
        if f"{P}Counted17" not in U.module.__dict__:
            src = (
                f"class _CountMeta17(type({P}Expr)):\n    def __len__(cls):\n        return 0\n\n\n"
                f"@dataclass(frozen=True)\nclass {P}Counted17({P}Expr, metaclass=_CountMeta17):\n    v: int = 0\n"
            )
            exec(compile(src, "<c17 counted>", "exec", dont_inherit=True), U.module.__dict__)
        for text in (f"({P}Counted17)", f"({P}Leaf | {P}Counted17 @v -> a)", f"({P}Un @child=({P}Counted17))"):
            ctx.count("class_object_that_is_falsy")
            check_pattern(text, "accept", "falsy-class-object")
        for text in (f"//{P}Counted17", f"/{P}List/@items {P}Counted17"):
            check_xpath(text, "accept", "falsy-class-object")
        # regex literals holding brackets that are not paired as text (escaped, or inside a character class)
        for rx in ("\\(", "^:-\\)$", "a[(]b", "^\\[x", "[)\\]]+", "\\)\\)\\("):
            ctx.count("regex_unpaired_brackets")
            check_pattern(f'({P}Leaf @s="{rx}")', "accept", "regex-unpaired-brackets")
        # regex literals the regex engine refuses with something other than re.error (repetition counts beyond its limits)
        for rx in ("x{4294967295}", "ab{2,99999999999}", "(a{65536}){65536}", "a{1,4294967296}"):
            ctx.count("regex_engine_limit_literals")
            check_pattern(f'({P}Leaf @s="{rx}")', None, "regex-engine-limit")
            check_pattern(f'({P}Un @child=({P}Leaf @s="{rx}"))', None, "regex-engine-limit")
        # regex literals differing only in the white space inside the quotes are different patterns
        if rnd % 10 == 1:
            import re as _re

            rxs = ["a b$", "a  b$", "a\\tb", "a *b$", " a b", "a b $", "a\tb", "ab$", "a   b"]
            rng.shuffle(rxs)
            for rx in rxs:
                for text in (f'({P}Leaf @s="{rx}")', f'({P}Leaf  @s="{rx}" )'):
                    ctx.evaluations += 1
                    ctx.count("regex_inner_whitespace")
                    m, msg = NodeMatcher.from_pattern(text)
                    if m is None:
                        bad("pattern-wrong-verdict", "well-formed pattern rejected", text=text, kind="regex-inner-whitespace", msg=str(msg)[:100])
                        continue
                    got = [m.match(lf)[0] for lf in ws_leaves]
                    exp = [_re.match(rx, lf.s) is not None for lf in ws_leaves]
                    if got != exp:
                        bad("pattern-behaviour", "a pattern's regex is not applied as written (white space inside the literal matters)", text=text, got=got, exp=exp, values=[lf.s for lf in ws_leaves])
        ctx.count("random_strings", 2)
        check_pattern("".join(rng.choice(P_ALPHA) for _ in range(rng.randint(0, 16))), None, "random")
        check_pattern("(" + "|".join(rng.choice(class_names) for _ in range(rng.randint(20, 60))) + ")", "accept", "long-alternation")
        # ================================================= classes defined later
        if rnd % 10 == 0:
            late_counter[0] += 1
            cname = f"{P}Late{ctx.shard}x{late_counter[0]}"
            xt, pt = f"//{cname}", f"({cname} @v -> a)"
            check_xpath(xt, "reject", "late-class-before")
            check_pattern(pt, "reject", "late-class-before")
            exec(compile(f"@dataclass(frozen=True)\nclass {cname}({P}Expr):\n    v: int = 0\n", "<c17 late>", "exec", dont_inherit=True), U.module.__dict__)
            ctx.count("late_defined_class")
            check_xpath(xt, "accept", "late-class-after")
            check_pattern(pt, "accept", "late-class-after")
    if ctx.only_case is None:
        check_xpath("", None, "empty")
        check_pattern("", "reject", "empty")
        check_xpath("/", None, "slash")
        check_xpath("//", None, "slash")
