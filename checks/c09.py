"""C09 — visitor dispatch and transformation follow the rules and keep untouched parts.

REF + FRAME: recording visitors log every dispatch (compared with the MRO
reference); rule sets are applied to the tree *spec* by a reference bottom-up
rewriter and compared with ASTTransformVisitor.transform: result structure,
identity of every unchanged subtree, newness of every ancestor of a change; the
input tree's fields are snapshotted (identity) before and compared after, also
when a rule raises.
"""
from __future__ import annotations

import dataclasses
import sys
import types

from vlib import gen as G
from vlib import origins as O
from vlib.spec import FACTORY, S, build, deep_copy, effective_props, preorder, spec_json, tv, child_slots
from vlib.universe import core_universe

LEVEL = "exploration"
RULE = (
    "cases = (tree, visitor): dispatch visitors with visit_<Class> methods on random subsets of the hierarchy (own class, "
    "base only, second base of a multiply-inheriting class, ASTNode, none), strict and non-strict, asked for every node; "
    "transform visitors from rule sets mapping classes to keep / keep-without-descent / rewrite-a-property / "
    "replace-by-fresh-node / remove / raise (rules on base classes apply to subclasses), trees with tuples (removal at "
    "first / middle / last / all positions), optional and required single children, shared objects; validate=True visitor "
    "definitions with agreeing and disagreeing annotations; non-trivial = rule set that changes or removes at least one "
    "node, or a dispatch through a base-class method; distinct = distinct (tree fingerprint, rule set)"
)
ASSUMPTIONS = ["CPython's __mro__ is the reference for 'nearest class in its MRO'"]
MUST_SEE = ["transform_over_subclass_defined_after_base_was_used", "dispatch_after_class_redefinition", "rules_using_the_children_helper", "strictness_set_per_instance", "tuple_wider_than_256", "rules_attached_after_class_creation", "raised_BoomAttr", "raised_BoomKey", 
    "remove_first", "remove_middle", "remove_last", "remove_all", "remove_single_optional", "unchanged_subtree_under_changed_root",
    "strict_base_only_generic", "raise_below_depth2", "dispatch_second_base", "unchanged_returns_self", "validate_mismatch_raised",
    "validate_ok", "frames_checked", "derived_visitor_after_base_used",
]
CONFIG = {
    "quick": {"shards": 16, "cases": 1500, "watchdog_s": 600},
    "thorough": {"shards": 32, "cases": 1500, "watchdog_s": 3400},
}


class Boom(Exception):
    pass


# what a user's visit method raises may be of any exception family (look-up errors the dispatcher itself might catch included)
class BoomAttr(Boom, AttributeError):
    pass


class BoomKey(Boom, KeyError):
    pass


class BoomType(Boom, TypeError):
    pass


class BoomStop(Boom, StopIteration):
    pass


class _Unused(Exception):
    pass


def frame_of(U, root):
    """identity snapshot of every field of every node object reachable from root"""
    snap = {}
    stack = [root]
    while stack:
        n = stack.pop()
        if id(n) in snap:
            continue
        vals = tuple((f.name, id(getattr(n, f.name))) for f in dataclasses.fields(n))
        from pyoak.node import ASTNode as _AN

        snap[id(n)] = (n, vals, n.id, n.content_id, hash(n), _AN.get_any(n.id) is n)
        for f in U.child_fields(type(n).__name__):
            v = getattr(n, f.name)
            if v is None:
                continue
            stack.extend(v if isinstance(v, tuple) else [v])
    return snap


def frame_diff(snap):
    from pyoak.node import ASTNode as _AN

    for n, vals, id_, cid, h, reg in snap.values():
        now = tuple((f.name, id(getattr(n, f.name))) for f in dataclasses.fields(n))
        if now != vals or n.id != id_ or n.content_id != cid or hash(n) != h:
            changed = [a[0] for a, b in zip(vals, now) if a != b]
            return f"{type(n).__name__} {id_}: fields {changed}"
        if reg and _AN.get_any(n.id) is not n:
            # transforming is neither detach nor replace: a node of the input that was registered still is
            return f"{type(n).__name__} {id_}: no longer returned by lookup under its id"
    return None


def run_shard(ctx):
    sys.setrecursionlimit(20000)
    from pyoak.node import ASTNode
    from pyoak.visitor import ASTTransformVisitor, ASTVisitor

    U = core_universe()
    P = U.P
    concrete = U.concrete()
    from vlib.universe import warm_up

    ctx.extra["first_use_order"] = warm_up(U, ctx.rng("warm-up"), ctx)[:6]
    all_names = list(U.order) + ["ASTNode"]

    # ------------------------------------------------------------------ validate=True
    def mk_validated(pairs):
        def body(ns):
            ns["generic_visit"] = lambda self, node: None
            for mname, ann in pairs:
                def meth(self, node):
                    return None

                meth.__annotations__ = {"node": ann}
                ns[mname] = meth

        return types.new_class("VV", (ASTVisitor,), {"validate": True}, body)

    if ctx.only_case is None:
        for mname, ann, ok in [
            (f"visit_{P}Leaf", U.cls[f"{P}Leaf"], True),
            (f"visit_{P}Leaf", f"{P}Leaf", True),
            (f"visit_{P}Leaf", U.cls[f"{P}Leaf2"], False),
            (f"visit_{P}Leaf", f"{P}Name", False),
            (f"visit_{P}Bin", U.cls[f"{P}Over"], False),
            (f"visit_{P}Both", U.cls[f"{P}Both"], True),
            ("helper", U.cls[f"{P}Leaf"], True),
        ]:
            ctx.evaluations += 1
            try:
                mk_validated([(mname, ann), (f"visit_{P}Un", U.cls[f"{P}Un"])])
                r = "ok"
            except TypeError:
                r = "TypeError"
            except Exception as e:  # noqa: BLE001
                r = type(e).__name__
            if ok:
                ctx.count("validate_ok")
            else:
                ctx.count("validate_mismatch_raised" if r == "TypeError" else "validate_mismatch_not_raised")
            if r != ("ok" if ok else "TypeError"):
                ctx.violation("validate", "validate=True visitor definition outcome wrong", {"method": mname, "annotation": str(ann), "got": r})

    for case in ctx.cases(ctx.params["cases"]):
        rng = ctx.rng(case)
        tg = G.TreeGen(rng, U, max_nodes=rng.choice([5, 12, 25]), max_depth=6, max_width=5, share=0.1 if case % 4 == 0 else 0.0, twin=0.2, p_origin=0.3, hostile=0.0)
        s = tg.tree()
        if case % 20 == 3:
            # tuples far wider than anything small-integer caches or chunked loops cover
            wide = S(f"{P}List", {}, {"items": tuple(S(rng.choice([f"{P}Leaf", f"{P}Leaf2", f"{P}Name"]), {"v": i}) for i in range(rng.choice([257, 300, 520])))})
            other = S(f"{P}Call", {}, {"args": tuple(S(f"{P}Leaf", {"v": 1000 + i}) for i in range(260)), "kwargs": (S(f"{P}Leaf2", {"v": 5}),)})
            s = S(f"{P}Stmt", {}, {"body": (wide, S(f"{P}Un", {}, {"child": other}))})
            ctx.count("tuple_wider_than_256")
        memo = {}
        root = build(U, s, memo)
        pos = preorder(U, s)
        fp = G.shape_fingerprint(U, s)
        if case < 1 and ctx.shard == 0:
            ctx.sample({"tree": spec_json(s)})

        # ============================================================== dispatch
        with_methods = set(rng.sample(all_names, rng.randint(0, 6)))
        strict = rng.random() < 0.5
        log = []

        def mk_method(name):
            def m(self, node):
                log.append((name, id(node)))
                return name

            return m

        ns = {f"visit_{c}": mk_method(f"visit_{c}") for c in with_methods}
        ns["generic_visit"] = mk_method("generic_visit")
        per_instance = rng.random() < 0.3  # strictness chosen per visitor object (the class says the opposite)
        ns["strict"] = (not strict) if per_instance else strict
        V = type("DV", (ASTVisitor,), ns)
        if rng.random() < 0.5:
            # a base visitor class is used first; the visitor under test derives from it and adds / overrides methods
            for p in pos:
                V().visit(memo[id(p.spec)])
            more = set(rng.sample(all_names, rng.randint(1, 4)))
            ns2 = {f"visit_{c}": mk_method(f"visit_{c}") for c in more}
            ns2["strict"] = (not strict) if per_instance else strict
            V = type("DV2", (V,), ns2)
            with_methods = with_methods | more
            ctx.count("derived_visitor_after_base_used")
        v = V()
        if per_instance:
            v.strict = strict
            ctx.count("strictness_set_per_instance")
        for p in pos:
            node = memo[id(p.spec)]
            mro = [c.__name__ for c in type(node).__mro__[:-1]]
            if strict:
                exp = f"visit_{mro[0]}" if mro[0] in with_methods else "generic_visit"
                if mro[0] not in with_methods and any(c in with_methods for c in mro[1:]):
                    ctx.count("strict_base_only_generic")
            else:
                exp = next((f"visit_{c}" for c in mro if c in with_methods), "generic_visit")
                hit = next((c for c in mro if c in with_methods), None)
                if hit is not None and hit != mro[0]:
                    ctx.fp((fp, "dispatch", tuple(sorted(with_methods)), strict))
                    # reached only through a non-primary base?
                    chain = []
                    b = type(node)
                    while b is not object:
                        chain.append(b.__name__)
                        b = b.__base__
                    if hit not in chain:
                        ctx.count("dispatch_second_base")
            del log[:]
            ctx.evaluations += 1
            ret = v.visit(node) if rng.random() < 0.5 else node.accept(v)
            if log != [(exp, id(node))] or ret != exp:
                ctx.violation(
                    "dispatch",
                    "visit() called a different method than the dispatch rules prescribe",
                    {"class": mro[0], "mro": mro, "methods": sorted(with_methods), "strict": strict, "called": [m for m, _ in log], "expected": exp},
                )
                break

        # ============================================================== transform
        classes_in_tree = sorted({p.spec.cls for p in pos})
        rule_targets = rng.sample(classes_in_tree, min(len(classes_in_tree), rng.randint(0, 3)))
        if rng.random() < 0.3:
            rule_targets.append(f"{P}Leaf")  # applies to Name as well
        if rng.random() < 0.15:
            rule_targets.append(f"{P}Expr")
        rules = {}
        for c in rule_targets:
            rules[c] = rng.choice(["keep", "keep_nodescend", "rewrite", "rewrite", "replace", "remove", "remove", "raise"])
        if case % 5 == 0:
            rules = {k: ("keep" if a == "raise" else a) for k, a in rules.items()}
        if case % 7 == 0:
            rules = {}

        def rule_for(cls_name):
            for c in [x.__name__ for x in U.cls[cls_name].__mro__]:
                if c in rules:
                    return rules[c]
            return None

        def rewritable(cls_name):
            for f in U.prop_fields(cls_name):
                if f.init and f.shape in ("int", "str"):
                    return f
            return None

        # ---- reference rewriter on the spec
        class Raised(Exception):
            pass

        calls_ref = []

        def rw_children(sp):
            """returns (new kids dict or None if nothing changed)"""
            changed = False
            newk = dict(sp.kids)
            for f in U.child_fields(sp.cls):
                val = sp.kids.get(f.name)
                if val is None:
                    continue
                if isinstance(val, tuple):
                    out = []
                    fchanged = False
                    for i, c in enumerate(val):
                        r = rw(c)
                        if r is None:
                            fchanged = True
                            removed.append((len(val), i))
                        else:
                            out.append(r)
                            if r is not c:
                                fchanged = True
                    if fchanged:
                        newk[f.name] = tuple(out)
                        changed = True
                else:
                    r = rw(val)
                    if r is not val:
                        newk[f.name] = r
                        changed = True
                        if r is None and f.shape == "opt":
                            removed.append(("opt", 0))
            return newk if changed else None

        def generic(sp):
            nk = rw_children(sp)
            if nk is None:
                return sp
            n = S(sp.cls, dict(sp.props), nk, sp.origin)
            n.tag = ("from", sp)
            return n

        def rw(sp):
            a = rule_for(sp.cls)
            calls_ref.append(id(memo[id(sp)]))
            if a is None or a == "keep":
                return generic(sp)
            if a == "keep_nodescend":
                return sp
            if a == "rewrite":
                g = generic(sp)
                f = rewritable(sp.cls)
                if f is None:
                    return g
                ep = effective_props(U, g)
                n = S(g.cls, dict(g.props), dict(g.kids), g.origin)
                n.props[f.name] = (ep[f.name] + 1) if f.shape == "int" else (ep[f.name] + "!")
                n.tag = ("from", sp)
                return n
            if a == "replace":
                n = S(f"{P}Leaf", {"v": 999, "s": "fresh"}, {}, ("gen", 0))
                n.tag = ("fresh",)
                return n
            if a == "remove":
                return None
            if a == "raise":
                raise Raised()
            raise ValueError(a)

        removed = []
        try:
            exp = rw(s)
            exp_raise = False
        except Raised:
            exp = None
            exp_raise = True

        # ---- the real visitor
        calls_real = []

        busy = rng.random() < 0.3
        boom_cls = rng.choice([Boom, BoomAttr, BoomAttr, BoomKey, BoomType, BoomStop])
        via_helper = rng.random() < 0.4
        if busy:
            ctx.count("rules_that_traverse_and_serialize")

        def mk_rule(cname, action):
            def meth(self, node):
                calls_real.append(id(node))
                if busy:
                    # a visit method may use the node freely: traverse, compare, serialize, look around
                    list(node.dfs())
                    _ = node == node, hash(node), node.as_dict(), node.to_tree().get_depth(node), node.find(f"//{P}Leaf")
                if action == "keep":
                    return ASTTransformVisitor.generic_visit(self, node)
                if action == "keep_nodescend":
                    return node
                if action == "rewrite" and via_helper:
                    # the documented helper: "a dictionary suitable for passing to dataclasses.replace"; the rule adds its own change to it
                    f = rewritable(type(node).__name__)
                    changes = self._transform_children(node)
                    if f is None:
                        return dataclasses.replace(node, **changes) if changes else node
                    cur = changes.get(f.name, getattr(node, f.name))
                    if isinstance(changes, dict):
                        changes[f.name] = (cur + 1) if f.shape == "int" else (cur + "!")
                    else:
                        changes = {**changes, f.name: (cur + 1) if f.shape == "int" else (cur + "!")}
                    ctx.count("rules_using_the_children_helper")
                    return dataclasses.replace(node, **changes)
                if action == "rewrite":
                    g = ASTTransformVisitor.generic_visit(self, node)
                    f = rewritable(type(node).__name__)
                    if f is None:
                        return g
                    cur = getattr(g, f.name)
                    return dataclasses.replace(g, **{f.name: (cur + 1) if f.shape == "int" else (cur + "!")})
                if action == "replace":
                    return U.cls[f"{P}Leaf"](v=999, s="fresh", origin=O.build_origin(("gen", 0)))
                if action == "remove":
                    return None
                if action == "raise":
                    ctx.count("raised_" + boom_cls.__name__)
                    raise boom_cls("rule raised")
                raise ValueError(action)

            return meth

        def gv(self, node):
            calls_real.append(id(node))
            return ASTTransformVisitor.generic_visit(self, node)

        tns = {f"visit_{c}": mk_rule(c, a) for c, a in rules.items()}
        tns["generic_visit"] = gv
        if rng.random() < 0.5:
            ASTTransformVisitor().transform(root)  # the plain base visitor sees every class first
        if rng.random() < 0.3:
            # the rules become methods of the visitor class after the class was created
            TV = type("TV", (ASTTransformVisitor,), {})
            for name_, fn_ in tns.items():
                setattr(TV, name_, fn_)
            ctx.count("rules_attached_after_class_creation")
        else:
            TV = type("TV", (ASTTransformVisitor,), tns)
        snap = frame_of(U, root)
        input_ids = set(snap)
        ctx.evaluations += 1
        ctx.fp((fp, "transform", tuple(sorted(rules.items()))))
        detail = {"tree": spec_json(s), "rules": rules}
        try:
            res = TV().transform(root)
            raised = None
        except Boom:
            raised = "Boom"
            res = None
        except Exception as e:  # noqa: BLE001
            import traceback

            raised = f"{type(e).__name__}: {e}"
            detail["tb"] = traceback.format_exc()[-600:]
        ctx.count("frames_checked")
        fd = frame_diff(snap)
        if fd:
            ctx.violation("input-modified", f"the input tree was modified by transform: {fd}", dict(detail, raised=raised))
        if exp_raise:
            if any(len(p.path) >= 2 and rule_for(p.spec.cls) == "raise" for p in pos):
                ctx.count("raise_below_depth2")
            if raised != "Boom":
                ctx.violation("raise-not-propagated", "a raising visitor method did not propagate its exception", dict(detail, raised=raised))
            continue
        if raised is not None:
            ctx.violation("transform-raised", f"transform raised unexpectedly: {raised}", detail)
            continue
        for total, i in removed:
            if total == "opt":
                ctx.count("remove_single_optional")
            else:
                if total == 1:
                    ctx.count("remove_all")
                elif i == 0:
                    ctx.count("remove_first")
                elif i == total - 1:
                    ctx.count("remove_last")
                else:
                    ctx.count("remove_middle")
        if exp is s:
            ctx.count("unchanged_returns_self")
        # ---- compare result with expected spec
        def compare(e, r, path):
            if e is None:
                return None if r is None else f"{path}: expected None (removed), got {type(r).__name__}"
            if r is None:
                return f"{path}: got None, expected {e.cls}"
            if id(e) in memo:
                # unchanged subtree: must be the very same object
                if r is not memo[id(e)]:
                    return f"{path}: an unchanged subtree was not returned as the same object"
                return None
            if id(r) in input_ids:
                return f"{path}: a node with changes below/at it is not a new object"
            if type(r).__name__ != e.cls:
                return f"{path}: class {type(r).__name__}, expected {e.cls}"
            ep = effective_props(U, e)
            for f in U.prop_fields(e.cls):
                if ep[f.name] is FACTORY:
                    continue
                if tv(getattr(r, f.name)) != tv(ep[f.name]):
                    return f"{path}: property {f.name} = {getattr(r, f.name)!r}, expected {ep[f.name]!r}"
            if O.canon_real(r.origin) != O.canon_spec(e.origin):
                return f"{path}: origin differs"
            for f in U.child_fields(e.cls):
                ev = e.kids.get(f.name, () if f.shape == "tuple" else None)
                rv = getattr(r, f.name)
                if isinstance(ev, tuple):
                    if not isinstance(rv, tuple) or len(rv) != len(ev):
                        return f"{path}.{f.name}: tuple of length {len(rv) if isinstance(rv, tuple) else rv!r}, expected {len(ev)}"
                    for i, (a, b) in enumerate(zip(ev, rv)):
                        err = compare(a, b, f"{path}.{f.name}[{i}]")
                        if err:
                            return err
                else:
                    err = compare(ev, rv, f"{path}.{f.name}")
                    if err:
                        return err
            return None

        err = compare(exp, res, "root")
        if err:
            ctx.violation("transform-result", err, detail)
            continue
        if exp is not None and exp is not s and any(id(c) in memo for _, _, c in child_slots(U, exp)):
            ctx.count("unchanged_subtree_under_changed_root")
        # which nodes are visited (and how often) follows from the rules; the order of visits is not specified
        if sorted(calls_real) != sorted(calls_ref):
            ctx.violation("transform-visited-nodes", "visitor methods were not called on exactly the nodes the rules prescribe", dict(detail, n_real=len(calls_real), n_ref=len(calls_ref)))


_main_run_shard = run_shard


def run_shard(ctx):  # noqa: F811 - the main loop, then a leg that needs a history of class definitions
    _main_run_shard(ctx)
    if ctx.only_case is not None:
        return
    from pyoak.visitor import ASTVisitor

    U = core_universe()
    P = U.P
    log = []

    class V(ASTVisitor):
        strict = False

        def generic_visit(self, node):
            log.append("generic")
            return "generic"

    for base in (f"{P}Expr", f"{P}Stmt", f"{P}Leaf"):
        setattr(V, f"visit_{base}", (lambda b: lambda self, node: log.append(b) or b)(base))
    # one class name, defined three times with other bases: dispatch follows the bases of the class the node really has
    for gen_no, base in enumerate((f"{P}Expr", f"{P}Stmt", f"{P}Leaf")):
        src = f"@dataclass(frozen=True)\nclass {P}Again9({base}):\n    w: int = 0\n"
        exec(compile(src, f"<c09 again {gen_no}>", "exec", dont_inherit=True), U.module.__dict__)
        node = U.module.__dict__[f"{P}Again9"](w=gen_no)
        del log[:]
        ctx.evaluations += 1
        ctx.count("dispatch_after_class_redefinition")
        ret = V().visit(node)
        if ret != base or log != [base]:
            ctx.violation("dispatch", "visit() of an instance of a class defined again under its name (other bases) used another class's rule", {"bases_now": base, "called": list(log)})
    # a subclass that adds a child field, defined after its base class has been in use (instances created, traversed,
    # transformed): an ordinary transform visits the new field like any other
    from pyoak.visitor import ASTTransformVisitor

    Un, Leaf, Lst = U.cls[f"{P}Un"], U.cls[f"{P}Leaf"], U.cls[f"{P}List"]
    warm = Lst(items=(Un(child=Leaf(v=1)), Leaf(v=2)))
    list(warm.dfs()), warm.as_dict(), ASTTransformVisitor().transform(warm)
    src = f"@dataclass(frozen=True)\nclass {P}Late9({P}Un):\n    extra: {P}Expr | None = None\n    more: tuple[{P}Expr, ...] = ()\n"
    exec(compile(src, "<c09 late>", "exec", dont_inherit=True), U.module.__dict__)
    Late = U.module.__dict__[f"{P}Late9"]
    tree = Lst(items=(Late(child=Leaf(v=10), extra=Leaf(v=11), more=(Leaf(v=12), Un(child=Leaf(v=13)))), Leaf(v=14)))

    def bump(self_, node):
        return dataclasses.replace(node, v=node.v + 100)

    TV = type("TVLate", (ASTTransformVisitor,), {f"visit_{P}Leaf": bump})
    ctx.evaluations += 1
    ctx.count("transform_over_subclass_defined_after_base_was_used")
    try:
        out = TV().transform(tree)
        got = sorted(x.node.v for x in out.dfs() if isinstance(x.node, Leaf))
    except Exception as e:  # noqa: BLE001
        got = f"{type(e).__name__}: {e}"[:200]
    if got != [110, 111, 112, 113, 114]:
        ctx.violation("transform-late-subclass", "a transform over a tree holding an instance of a subclass (with child fields of its own) defined after the base class was used did not rewrite every leaf", {"leaf_values_after": got, "expected": [110, 111, 112, 113, 114]})
    for t_ in (warm, tree):
        t_.detach()
