"""C02 — `==` is content equality plus origin equality at every position.

REF: expected a == b  <=>  same class, equal canonical content key (from the spec)
and equal canonical origin at every pre-order position (from the spec). Families
are grown from a seed tree by changing exactly one origin at one position (every
position in turn, all origin kinds, confusable origin pairs) and by content edits.
"""
from __future__ import annotations

import sys

from vlib import gen as G
from vlib import mutate as M
from vlib import origins as O
from vlib.spec import S, build, content_key, deep_copy, origin_profile, preorder, spec_json
from vlib.universe import core_universe

LEVEL = "exploration"
RULE = (
    "families = seed tree + one variant per position with only that position's origin changed (random origin of any kind, "
    "or a member of a list of confusable origin pairs: generated vs code 0-0, multi with members of different kind / "
    "order / multiplicity, same range in another source) + content edits + exact twins; all ordered pairs of a family "
    "are compared with the reference, all triples for transitivity; half of the families are built serially (each tree "
    "detached before the next is built, so ids are re-used); non-trivial = pair differing in exactly one origin or equal "
    "pair of distinct objects; distinct = distinct (family fingerprint, i, j)"
)
ASSUMPTIONS = ["origins are produced by the library's constructors / merge_origins", "content equality itself is C01's subject: frozenset order and separator re-splits are not generated here"]
MUST_SEE = ["source_registry_cleared_between_operands", "operands_via_pickle_or_deepcopy", "deep_3000_comparisons", "trees_sharing_child_objects", "rejected_replace_then_hash", "permissive_non_node_comparisons", "one_origin_diff_depth_ge2", "equal_pairs_distinct_objects", "triples", "confusable_origin_pairs", "serial_families", "non_node_comparisons", "hash_rechecks", "shared_subtrees", "shared_vs_unshared_families"]
CONFIG = {
    "quick": {"shards": 16, "families": 500, "watchdog_s": 300},
    "thorough": {"shards": 32, "families": 500, "watchdog_s": 3000},
}

KINDS = ["prop_value", "prop_type", "tuple_perm", "tuple_drop", "move_child", "class_swap", "noncompare_change", "opt_toggle", "origin_change"]


def confusable_pairs(rng):
    s = rng.randrange(O.N_SOURCES)
    s2 = (s + 1) % O.N_SOURCES
    A = ("code", s, 1, 4)
    B = ("xml", s2, "/a/b")
    return [
        (("gen", s), ("code", s, 0, 0)),
        (("multi", (("gen", s), B)), ("multi", (("code", s, 0, 0), B))),
        (("multi", (A, B)), ("multi", (B, A))),
        (("multi", (A, B)), ("multi", (A, B, B))),
        (("multi", (A, ("gen", s))), ("multi", (A, ("gen", s2)))),
        (("code", s, 2, 5), ("code", s2, 2, 5)),
        (("xml", s, "/a/b"), ("xml", s, "/a/b[2]")),
        (("no",), ("gen", s)),
        (("code", s, 2, 5), ("code", s, 2, 6)),
        # plain origins over a set of positions: the same members in another order / with a repeated member
        (("posset", s, (0, 2), (3, 5)), ("posset", s, (3, 5), (0, 2))),
        (("posset", s, (0, 2), (3, 5)), ("posset", s, (0, 2), (0, 2), (3, 5))),
        (("nsnp",), ("no",)),
        # two different origins of a user's own class that are both falsy (empty spans at different places)
        (("span", s, 1, 1), ("span", s, 2, 2)),
        (("span", s, 0, 0), ("span", s2, 0, 0)),
        (("whole", s), ("gen", s)),
    ]


def run_shard(ctx):
    sys.setrecursionlimit(20000)
    U = core_universe()
    P = U.P
    hashes = []  # (node, hash at creation)
    from vlib.universe import warm_up

    ctx.extra["first_use_order"] = warm_up(U, ctx.rng("warm-up"), ctx)[:6]
    for case in ctx.cases(ctx.params["families"]):
        rng = ctx.rng(case)
        tg = G.TreeGen(rng, U, max_nodes=rng.choice([4, 10, 22]), max_depth=8, max_width=4, share=0.15 if case % 3 == 0 else 0.0, twin=0.2, p_origin=0.4, hostile=0.05)
        s0 = tg.tree()
        if case % 4 == 2:
            # (the family whose operands are built around a clearing of the source registry: the seed tree carries a
            # multi-origin over two different sources at its root - the kind of origin that consults sources when it is built)
            sa = rng.randrange(O.N_SOURCES)
            s0.origin = ("multi", (("code", sa, 0, min(2, len(O.TEXTS[sa]))), ("xml", (sa + 1) % O.N_SOURCES, "/a/b")))
        pos0 = preorder(U, s0)
        fam = [(s0, "seed")]
        # one variant per position: only that origin changes
        chosen = pos0 if len(pos0) <= 12 else rng.sample(pos0, 12)
        for p in chosen:
            v = deep_copy(s0)
            q = next(x for x in preorder(U, v) if x.path == p.path)
            if rng.random() < 0.5:
                a, b = rng.choice(confusable_pairs(rng))
                # two variants: the confusable pair at this position
                q.spec.origin = a
                v2 = deep_copy(v)
                q2 = next(x for x in preorder(U, v2) if x.path == p.path)
                q2.spec.origin = b
                fam.append((v, f"origin@{len(p.path)}:confusable"))
                fam.append((v2, f"origin@{len(p.path)}:confusable"))
                ctx.count("confusable_origin_pairs")
            else:
                for _ in range(10):
                    o = O.gen_origin(rng, p_no=0.2)
                    if O.canon_spec(o) != O.canon_spec(q.spec.origin):
                        q.spec.origin = o
                        fam.append((v, f"origin@{len(p.path)}"))
                        break
        # a tree in which one node *object* sits at two positions, against content-equal trees with distinct
        # objects there: equal everywhere, and differing in the origin of the second / first occurrence only
        if case % 3 == 0:
            shared_leaf = S(f"{P}Leaf", {"v": 3, "s": "sh"}, {}, ("code", 0, 1, 3))
            inner = S(f"{P}Un", {}, {"child": shared_leaf}, ("gen", 1))
            sh = S(f"{P}Call", {}, {"args": (inner, S(f"{P}Leaf", {"v": 1}), inner), "fn": shared_leaf, "kwargs": (shared_leaf,)})
            fam.append((sh, "shared"))

            def unshare(x):
                n = S(x.cls, dict(x.props), {}, x.origin)
                for k, v in x.kids.items():
                    n.kids[k] = None if v is None else tuple(unshare(c) for c in v) if isinstance(v, tuple) else unshare(v)
                return n

            fam.append((unshare(sh), "unshared"))
            for which in range(1, 6):
                u = unshare(sh)
                occ = [p for p in preorder(U, u) if p.spec.cls in (f"{P}Leaf", f"{P}Un") and p.spec.props.get("s", "sh") == "sh"]
                tgt = occ[min(which, len(occ) - 1)] if which < 5 else occ[0]
                tgt.spec.origin = ("xml", 2, "/other")
                fam.append((u, f"unshared-origin@occurrence{which}"))
            ctx.count("shared_vs_unshared_families")
        for _ in range(5):
            m = M.mutate(rng, U, rng.choice(fam)[0], KINDS)
            if m:
                fam.append((m[0], m[1]))
        fam.append((deep_copy(s0), "twin"))
        serial = case % 2 == 1
        if serial:
            ctx.count("serial_families")
        roots = []
        keepalive = []
        for fi, (s, kind) in enumerate(fam):
            if case % 4 == 2 and fi == len(fam) // 2:
                # the registry of sources is emptied between the construction of two operands (the documented way to start a
                # new index-based dump): origins are what they are whether or not their sources are listed there
                from pyoak.origin import Source

                Source.clear_registry()
                ctx.count("source_registry_cleared_between_operands")
            r = build(U, s)
            via = rng.choice(["built", "built", "built", "pickle", "deepcopy"])
            if via != "built":
                # the operand did not come out of a constructor: it went through pickle (a result handed over by a worker
                # process, a disk cache) or copy.deepcopy; it is a node with the same content and origins all the same
                import copy
                import pickle

                try:
                    r2 = pickle.loads(pickle.dumps(r)) if via == "pickle" else copy.deepcopy(r)
                except Exception:  # noqa: BLE001 - (classes defined inside functions cannot be pickled)
                    r2 = None
                if r2 is not None and type(r2) is type(r):
                    ctx.count("operands_via_pickle_or_deepcopy")
                    keepalive.append(r)
                    r = r2
            roots.append(r)
            hashes.append((r, hash(r)))
            if serial:
                r.detach()
        keys = [(s.cls, content_key(U, s), origin_profile(U, s)) for s, _ in fam]
        famfp = G.shape_fingerprint(U, s0)
        if any(len({id(x.spec) for x in preorder(U, s)}) < len(preorder(U, s)) for s, _ in fam[:1]):
            ctx.count("shared_subtrees")
        if case < 1 and ctx.shard == 0:
            ctx.sample({"seed_tree": spec_json(s0), "family": [k for _, k in fam]})
        n = len(fam)
        eq = [[None] * n for _ in range(n)]
        for i in range(n):
            for j in range(n):
                ctx.evaluations += 1
                exp = keys[i] == keys[j]
                try:
                    got = roots[i] == roots[j]
                    ne = roots[i] != roots[j]
                except Exception as e:  # noqa: BLE001
                    ctx.violation("eq-raises", f"== raised {type(e).__name__}: {e}", {"a": spec_json(fam[i][0]), "b": spec_json(fam[j][0])})
                    continue
                eq[i][j] = got
                if got is not True and got is not False:
                    ctx.violation("eq-not-bool", "== did not return a bool", {"got": repr(got)})
                if got != exp:
                    ctx.violation(
                        "eq-vs-reference",
                        "a == b differs from (content equal and origins equal at every position)",
                        {"a": spec_json(fam[i][0]), "b": spec_json(fam[j][0]), "kinds": (fam[i][1], fam[j][1]), "got": got, "exp": exp, "serial": serial},
                    )
                if ne == got:
                    ctx.violation("ne-not-negation", "a != b is not the negation of a == b", {"a": spec_json(fam[i][0]), "b": spec_json(fam[j][0])})
                if exp and i != j:
                    ctx.count("equal_pairs_distinct_objects")
                    ctx.fp((famfp, i, j))
                if not exp and keys[i][:2] == keys[j][:2]:
                    d = [k for k, (x, y) in enumerate(zip(keys[i][2], keys[j][2])) if x != y]
                    if len(d) == 1:
                        ctx.fp((famfp, i, j))
                        depth = len(preorder(U, fam[i][0])[d[0]].path)
                        if depth >= 2:
                            ctx.count("one_origin_diff_depth_ge2")
        for i in range(n):
            for j in range(n):
                if eq[i][j] is not None and eq[j][i] is not None and eq[i][j] != eq[j][i]:
                    ctx.violation("eq-asymmetric", "== is not symmetric", {"a": spec_json(fam[i][0]), "b": spec_json(fam[j][0])})
            if eq[i][i] is not True:
                ctx.violation("eq-irreflexive", "a == a is not True", {"a": spec_json(fam[i][0])})
        for i in range(n):
            for j in range(n):
                if not eq[i][j]:
                    continue
                for k in range(n):
                    ctx.count("triples")
                    if eq[j][k] and not eq[i][k]:
                        ctx.violation("eq-intransitive", "== is not transitive", {"a": spec_json(fam[i][0]), "b": spec_json(fam[j][0]), "c": spec_json(fam[k][0])})
        # non-nodes and other classes
        r = roots[0]
        for other in (5, None, "x", (r,), object()):
            ctx.count("non_node_comparisons")
            if (r == other) is not False or (other == r) is not False or (r != other) is not True:
                ctx.violation("eq-non-node", "comparison with a non-node is not False", {"other": repr(other)})
        # a non-node whose own __eq__ says yes to everything: the node is the left operand, its answer stands
        class _Any:
            def __eq__(self, other):
                return True

            def __ne__(self, other):
                return False

            __hash__ = None

        for other in (_Any(),):
            ctx.count("permissive_non_node_comparisons")
            ctx.evaluations += 1
            if (r == other) is not False or (r != other) is not True:
                ctx.violation("eq-non-node", "node == <non-node that compares equal to everything> is not False", {"other": "object whose __eq__ always returns True"})
    # sibling / subclass comparisons with identical field values
    a = U.cls[f"{P}Leaf"](v=3, s="q")
    b = U.cls[f"{P}Leaf2"](v=3, s="q")
    c = U.cls[f"{P}Name"](v=3, s="q")
    l, bo = U.cls[f"{P}Left"](lv=1), U.cls[f"{P}Both"](lv=1)
    for x, y in ((a, b), (a, c), (c, a), (l, bo), (bo, l)):
        ctx.evaluations += 1
        if (x == y) is not False or (x != y) is not True:
            ctx.violation("eq-other-class", "nodes of different classes compare equal", {"classes": (type(x).__name__, type(y).__name__)})
    # the same class name defined twice (old instances survive a redefinition): two different classes
    src = f"@dataclass(frozen=True)\nclass {P}Redef2({P}Expr):\n    v: int = 0\n    kid: {P}Expr | None = None\n"
    gen = []
    for k in range(2):
        exec(compile(src, f"<c02 redef {k}>", "exec", dont_inherit=True), U.module.__dict__)
        gen.append(U.module.__dict__[f"{P}Redef2"])
    x, y = gen[0](v=5), gen[1](v=5)
    px, py = gen[0](v=1, kid=x), gen[1](v=1, kid=y)
    ctx.count("same_named_class_probe")
    for u, w in ((x, y), (y, x), (px, py)):
        ctx.evaluations += 1
        if (u == w) is not False or (u != w) is not True:
            ctx.violation("eq-other-class", "instances of two different classes with the same name (class redefined) compare equal", {"class": f"{P}Redef2"})
    # two trees that share child *objects* (as after a transformation that re-uses untouched children) and differ
    # in one origin at a later / earlier sibling or below it: every position is compared, shared ones included
    Leaf, Un, Call, Lst = U.cls[f"{P}Leaf"], U.cls[f"{P}Un"], U.cls[f"{P}Call"], U.cls[f"{P}List"]
    o1, o2 = O.build_origin(("code", 0, 1, 3)), O.build_origin(("code", 0, 1, 4))
    for k in range(8):
        shared = [Un(child=Leaf(v=k, s="sh"), origin=o1), Leaf(v=100 + k, origin=o2)]
        deep_a, deep_b = Un(child=Leaf(v=7, origin=o1)), Un(child=Leaf(v=7, origin=o2))
        shapes = [
            (lambda x: Call(args=(shared[0], x, shared[1])), deep_a, deep_b),
            (lambda x: Call(args=(shared[0], shared[1], x)), deep_a, deep_b),
            (lambda x: Call(args=(x, shared[0])), deep_a, deep_b),
            (lambda x: Call(args=(shared[0],), fn=shared[1], kwargs=(x,)), Leaf(v=1, origin=o1), Leaf(v=1, origin=o2)),
            (lambda x: Lst(items=(shared[0], Call(args=(shared[1], x)))), deep_a, deep_b),
        ]
        mk, xa, xb = shapes[k % len(shapes)]
        ta, tb, tc = mk(xa), mk(xb), mk(xa)
        ctx.count("trees_sharing_child_objects")
        ctx.evaluations += 3
        if (ta == tb) is not False or (tb == ta) is not False or (ta != tb) is not True:
            ctx.violation("eq-vs-reference", "two trees sharing child objects and differing in one origin at another sibling compare equal", {"shape": k % len(shapes), "got": True, "exp": False})
        if (ta == tc) is not True:
            ctx.violation("eq-vs-reference", "two equal trees sharing child objects compare unequal", {"shape": k % len(shapes), "got": False, "exp": True})
        for x_ in (ta, tb, tc):
            x_.detach()
    # very deep trees, compared under the interpreter's default recursion limit (the harness' own limit is high)
    if ctx.only_case is None and ctx.shard % 4 == 0:
        def chain(depth, last_origin):
            n_ = U.cls[f"{P}Leaf"](v=1, origin=last_origin)
            for _ in range(depth):
                n_ = U.cls[f"{P}Un"](child=n_)
            return n_

        da, db, dc = chain(3000, o1), chain(3000, o1), chain(3000, o2)
        old_limit = sys.getrecursionlimit()
        sys.setrecursionlimit(1000)
        try:
            ctx.evaluations += 2
            ctx.count("deep_3000_comparisons")
            try:
                r1, r2, r3 = da == db, da == dc, da != dc
            except RecursionError:
                r1 = r2 = r3 = "RecursionError"
            finally:
                sys.setrecursionlimit(old_limit)
            if (r1, r2, r3) != (True, False, True):
                ctx.violation("eq-raises" if r1 == "RecursionError" else "eq-vs-reference", "comparing trees 3000 levels deep (equal / differing in the origin of the deepest node) did not answer (True, False, True)", {"got": (r1, r2, r3), "depth": 3000})
        finally:
            sys.setrecursionlimit(old_limit)
        for x_ in (da, db, dc):
            x_.detach()
    # a replace() that is rejected after the rejected copy had been registered (the class validates after the base):
    # the receiver's hash, and so its membership in sets and dicts, stays what it was
    for k in range(6):
        pk = U.cls[f"{P}Picky"](v=100 + k, origin=O.build_origin(("code", k % 3, 1, 3)) if k % 2 else O.build_origin(("no",)))
        twin = U.cls[f"{P}Picky"](v=100 + k, origin=pk.origin) if k >= 3 else None  # with / without a registered twin
        h0, bag = hash(pk), {pk}
        hashes.append((pk, h0))
        try:
            pk.replace(note="boom")
        except ValueError:
            ctx.count("rejected_replace_then_hash")
        ctx.evaluations += 1
        if hash(pk) != h0 or pk not in bag or (twin is not None and not (twin == pk)):
            ctx.violation("hash-changed", "hash(node) changed after a replace() on it was rejected", {"class": f"{P}Picky", "with_registered_twin": twin is not None})
    for nd, h in hashes:
        ctx.count("hash_rechecks")
        if hash(nd) != h:
            ctx.violation("hash-changed", "hash(node) changed during the node's lifetime", {"class": type(nd).__name__})
            break
