"""C08 — pattern matching follows the documented semantics; captures are exact objects.

REF + history: patterns are generated as ASTs (derived from a real node, then
perturbed), rendered to text and compiled by pyoak; a reference matcher interprets
the *AST* over the real node. Captures are compared by identity. Every question is
asked again later (hot cache, cold cache, after unrelated compilations).
"""
from __future__ import annotations

import itertools
import sys

from vlib import gen as G
from vlib import origins as O
from vlib import refpattern as RP
from vlib.spec import S, build, deep_copy, preorder, spec_json
from vlib.universe import core_universe

LEVEL = "exploration"
RULE = (
    "questions = (pattern AST rendered to text, node): patterns derived from a node of the pool (class alternatives incl. "
    "base classes and a matching second alternative, '*', 0-4 field specs: any value, regex that is the full text / a "
    "prefix / a middle part / anchored, None, [], nested patterns to depth 3, sequences of length len-1 / len / len+1 with "
    "and without '*' tail, captures at every admissible place, variables referring to earlier captures of equal, "
    "content-equal-with-other-origin or unrelated values) asked of that node and of two other nodes; rule sets of 1-5 "
    "patterns for MultiPatternMatcher with every permutation / subset of rules; each question re-asked hot / cold / after "
    "other compiles; non-trivial = pattern with >= 1 field spec; distinct = distinct (pattern text, node fingerprint)"
)
ASSUMPTIONS = ["sequence patterns applied to str-valued fields and field names that are properties/methods are not generated (don't-care)"]
MUST_SEE = ["variable_on_value_not_equal_to_itself", "subclass_defined_after_pattern_was_compiled", "variable_on_nodes_differing_in_noncompare_property", "variable_refers_to_captured_sequence", "nodes_with_non_field_attributes", "empty_sequence_spec", "pattern_after_class_redefinition", "empty_rule_selection", "regex_inner_whitespace", "rules_given_as_iter", "rules_given_as_gen", "regex_on_hash_equal_values", 
    "tail_vs_too_short", "capture_on_seq_with_tail", "two_any_captures", "var_node_other_origin", "second_alternative_subclass",
    "matches", "mismatches", "reasked", "multi_questions", "regex_middle_only", "tail_capture", "empty_seq_vs_nonempty", "reasked_after_rejected",
]
CONFIG = {
    "quick": {"shards": 16, "trees": 200, "patterns_per_node": 3, "watchdog_s": 600},
    "thorough": {"shards": 32, "trees": 300, "patterns_per_node": 5, "watchdog_s": 3400},
}


def analyse(ctx, t, node, ok, classes):
    """must-see counters"""
    anyc = 0

    def val(v, x_known, x):
        if v[0] == "tree":
            tree(v, x if x_known else None, x_known)
        if v[0] == "var":
            pass

    def tree(t, x, known):
        nonlocal anyc
        _, cls, fields = t
        if known and cls != "*" and len(cls) == 2 and x is not None:
            first, second = classes[cls[0]], classes[cls[1]]
            if not isinstance(x, first) and isinstance(x, second) and type(x) is not second:
                ctx.count("second_alternative_subclass")
        for fname, spec, c in fields:
            fv = getattr(x, fname, None) if known and x is not None else None
            if spec is None and c:
                anyc += 1
            if spec is not None and spec[0] == "seq":
                if spec[2] is not None:
                    if c:
                        ctx.count("capture_on_seq_with_tail")
                    if spec[2][1]:
                        ctx.count("tail_capture")
                    if isinstance(fv, tuple) and len(fv) < len(spec[1]):
                        ctx.count("tail_vs_too_short")
                if not spec[1] and spec[2] is None and isinstance(fv, tuple) and len(fv) > 0:
                    ctx.count("empty_seq_vs_nonempty")
                for i, (v, vc) in enumerate(spec[1]):
                    if isinstance(fv, tuple) and i < len(fv):
                        val(v, True, fv[i])
                    else:
                        val(v, False, None)
            elif spec is not None:
                val(spec, known and x is not None, fv)

    tree(t, node, True)
    if anyc >= 2:
        ctx.count("two_any_captures")


def run_shard(ctx):
    sys.setrecursionlimit(20000)
    from pyoak.match import pattern as PM
    from pyoak.match.pattern import MultiPatternMatcher, NodeMatcher
    from pyoak.node import ASTNode

    from vlib.universe import EXTRA_ATTRS

    U = core_universe()
    P = U.P
    classes = dict(U.cls)
    classes["ASTNode"] = ASTNode
    all_classes = list(U.order)

    def fields_of(n):
        cn = type(n).__name__
        extra = [a for c in type(n).__mro__ for a in EXTRA_ATTRS.get(c.__name__[len(P):], ())]
        if extra:
            ctx.count("nodes_with_non_field_attributes")
        return [f.name for f in U.all_fields(cn) if f.name not in ("id", "content_id", "origin")] + extra

    def class_choices(n):
        return [c.__name__ for c in type(n).__mro__ if c.__name__ in U.specs] + (["ASTNode"] if ctx.rng("x").random() < 0.0 else [])

    history = []  # (text, ast, node, ok, caps)
    for case in ctx.cases(ctx.params["trees"]):
        rng = ctx.rng(case)
        tg = G.TreeGen(rng, U, max_nodes=rng.choice([6, 14, 25]), max_depth=5, max_width=4, share=0.0, twin=0.35, p_origin=0.5, hostile=0.1)
        s = tg.tree()
        if case % 3 == 0:
            # sequences with content-equal elements carrying different origins
            a = S(f"{P}Leaf", {"v": 7, "s": "ab"}, {}, ("code", 0, 1, 3))
            b = deep_copy(a)
            b.origin = ("gen", 1)
            c = S(f"{P}Name", {"v": 7, "s": "ab", "tag": None})
            s = S(f"{P}Call", {}, {"args": (a, b, c, deep_copy(a)), "fn": s if U.is_sub(s.cls, f"{P}Expr") else None, "kwargs": (b, a)})
        root = build(U, s)
        nodes = []
        stack = [root]
        while stack:
            n = stack.pop()
            nodes.append(n)
            for f in U.child_fields(type(n).__name__):
                v = getattr(n, f.name)
                if v is None:
                    continue
                stack.extend(v if isinstance(v, tuple) else [v])
        fpn = {id(n): n.content_id + "@" + n.origin.fqn for n in nodes}
        if case < 1 and ctx.shard == 0:
            ctx.sample({"tree": spec_json(s)})

        def ask(t, text, node, tag):
            ctx.evaluations += 1
            m, msg = NodeMatcher.from_pattern(text)
            detail = {"pattern": text, "ast": t, "node_class": type(node).__name__, "node": repr(node)[:400], "how": tag}
            if m is None:
                ctx.violation("well-formed-rejected", f"grammar-derived pattern rejected: {msg[:200]}", detail)
                return None
            try:
                exp_ok, exp_caps = RP.ref_match(t, node, classes, ASTNode)
            except KeyError as e:
                raise AssertionError(f"generator produced a variable without capture: {e} in {text}")
            try:
                got_ok, got_caps = m.match(node)
            except Exception as e:  # noqa: BLE001
                ctx.violation("match-raised", f"match raised {type(e).__name__}: {e}", detail)
                return None
            if got_ok != exp_ok:
                ctx.violation("verdict", f"match verdict {got_ok}, reference says {exp_ok}", detail)
                return None
            err = RP.captures_agree(dict(got_caps), exp_caps)
            if err:
                ctx.violation("captures", err, dict(detail, got=sorted(got_caps), exp=sorted(exp_caps)))
                return None
            ctx.count("matches" if exp_ok else "mismatches")
            if t[2]:
                ctx.fp((text, fpn.get(id(node), "")))
            return (exp_ok, exp_caps)

        if case % 4 == 0:
            # a variable that refers to a captured sequence (a whole tuple-valued field, or the rest of one): compared with ==,
            # and tuples of content-equal nodes whose origins differ are not ==
            Leaf, Call = U.cls[f"{P}Leaf"], U.cls[f"{P}Call"]
            o1, o2 = O.build_origin(("code", 0, 1, 3)), O.build_origin(("gen", 1))
            mk = lambda o: (Leaf(v=case, s="p", origin=o), Leaf(v=case + 1, s="q", origin=o))  # noqa: E731
            same = Call(args=mk(o1), kwargs=mk(o1))
            other_origins = Call(args=mk(o1), kwargs=mk(o2))
            shorter = Call(args=mk(o1), kwargs=mk(o1)[:1])
            for nd in (same, other_origins, shorter):
                for t in (
                    ("tree", [f"{P}Call"], [("args", None, "s"), ("kwargs", ("var", "s"), None)]),
                    ("tree", [f"{P}Call"], [("args", ("seq", [], ("tail", "all")), None), ("kwargs", ("var", "all"), "k")]),
                    ("tree", [f"{P}Call"], [("kwargs", ("seq", [(("tree", "*", []), "h")], ("tail", "rest")), None), ("args", ("var", "rest"), None)]),
                ):
                    ctx.count("variable_refers_to_captured_sequence")
                    ask(t, RP.render(t), nd, "directed-sequence-variable")
            for nd in (same, other_origins, shorter):
                nd.detach()
        pats = []
        for node in nodes if len(nodes) <= 12 else rng.sample(nodes, 12):
            for _ in range(ctx.params["patterns_per_node"]):
                pg = RP.PatGen(rng, U, fields_of, class_choices, all_classes)
                t = pg.tree_for(node, rng.choice([1, 2, 3]))
                text = RP.render(t)
                # counters about what the generator produced
                analyse(ctx, t, node, None, classes)
                for _f, spec, _c in t[2]:
                    if spec and spec[0] == "re":
                        sv = str(getattr(node, _f, ""))
                        import re as _re

                        try:
                            if _re.search(spec[1], sv) and not _re.match(spec[1], sv):
                                ctx.count("regex_middle_only")
                        except _re.error:
                            pass
                    if spec and spec[0] == "var":
                        cv = dict(pg.caps).get(spec[1])
                        fv = getattr(node, _f, None)
                        if isinstance(cv, ASTNode) and isinstance(fv, ASTNode) and cv.content_id == fv.content_id and cv.origin != fv.origin:
                            ctx.count("var_node_other_origin")
                    if spec and spec[0] == "seq":
                        for (v, vc), x in zip(spec[1], getattr(node, _f, ()) or ()):
                            if v[0] == "var":
                                cv = dict(pg.caps).get(v[1])
                                if isinstance(cv, ASTNode) and isinstance(x, ASTNode) and cv.content_id == x.content_id and cv.origin != x.origin:
                                    ctx.count("var_node_other_origin")
                r = ask(t, text, node, "first")
                if r is not None:
                    history.append((text, t, node, r))
                    pats.append((text, t))
                # the same pattern against two other nodes
                for other in rng.sample(nodes, min(2, len(nodes))):
                    ask(t, text, other, "other-node")
        # ---- MultiPatternMatcher
        if pats:
            for _ in range(4):
                k = rng.randint(1, min(5, len(pats)))
                chosen = rng.sample(pats, k)
                if len({c[0] for c in chosen}) < k:
                    continue
                defs = [(f"r{i}", text) for i, (text, _) in enumerate(chosen)]
                try:
                    mm = MultiPatternMatcher(defs)
                except Exception as e:  # noqa: BLE001
                    ctx.violation("multi-compile", f"MultiPatternMatcher rejected accepted patterns: {type(e).__name__}: {e}"[:300], {"defs": defs})
                    continue
                for node in rng.sample(nodes, min(4, len(nodes))):
                    refs = {f"r{i}": RP.ref_match(t, node, classes, ASTNode) for i, (_, t) in enumerate(chosen)}
                    orders = [None] + [list(p) for p in itertools.islice(itertools.permutations([d[0] for d in defs]), 6)]
                    names = [d[0] for d in defs]
                    orders.append([])  # an explicit empty selection selects nothing
                    if k >= 2:
                        orders.append(list(reversed(names))[: k - 1])
                        orders.append([names[-1], names[0]])
                    for rules in orders:
                        ctx.evaluations += 1
                        ctx.count("multi_questions")
                        if rules is not None and not rules:
                            ctx.count("empty_rule_selection")
                        exp = None
                        for rn in rules if rules is not None else names:
                            if refs[rn][0]:
                                exp = (rn, refs[rn][1])
                                break
                        try:
                            # the rule order may be given as any iterable (list, tuple, one-shot iterator, dict keys)
                            spell = rng.choice(["list", "tuple", "iter", "gen", "keys"]) if rules is not None else None
                            ctx.count(f"rules_given_as_{spell}")
                            given = rules if spell in (None, "list") else tuple(rules) if spell == "tuple" else iter(rules) if spell == "iter" else (r_ for r_ in rules) if spell == "gen" else dict.fromkeys(rules).keys()
                            got = mm.match(node, given) if rules is not None else mm.match(node)
                        except Exception as e:  # noqa: BLE001
                            ctx.violation("multi-raised", f"{type(e).__name__}: {e}", {"defs": defs, "rules": rules})
                            continue
                        d = {"defs": defs, "rules": rules, "node": repr(node)[:300], "expected_rule": exp[0] if exp else None, "got_rule": got[0] if got else None}
                        if (got is None) != (exp is None) or (got is not None and got[0] != exp[0]):
                            ctx.violation("multi-rule-order", "MultiPatternMatcher did not return the first matching rule in the given order", d)
                        elif got is not None:
                            err = RP.captures_agree(dict(got[1]), exp[1])
                            if err:
                                ctx.violation("multi-captures", err, d)
        # ---- history leg: re-ask earlier questions
        if history:
            for text, t, node, (ok0, caps0) in rng.sample(history, min(25, len(history))):
                mode = rng.choice(["hot", "cold", "cold-after-others", "cold-after-rejected"])
                if mode != "hot":
                    PM._MATCHER_CACHE.pop(text, None)
                if mode == "cold-after-rejected":
                    # a definition rejected half-way (it already registered every capture name there is)
                    names = " ".join(f"@v -> {c}" for c in RP.CAP_NAMES)
                    NodeMatcher.from_pattern(f"({P}Leaf {names} @s=(NoSuchClass))")
                    ctx.count("reasked_after_rejected")
                ctx.count("reasked")
                m, msg = NodeMatcher.from_pattern(text)
                ctx.evaluations += 1
                if m is None:
                    ctx.violation("history", f"a pattern accepted before is rejected now ({mode}): {msg[:100]}", {"pattern": text})
                    continue
                ok1, caps1 = m.match(node)
                err = None if ok1 == ok0 else f"verdict changed from {ok0} to {ok1}"
                if err is None:
                    err = RP.captures_agree(dict(caps1), caps0)
                if err:
                    ctx.violation("history", f"answer changed when asked again ({mode}): {err}", {"pattern": text, "node": repr(node)[:300]})
        if len(history) > 4000:
            del history[:2000]

    # ---- one regex against values that are == and hash-equal but print differently (1 / True / 1.0, 0 / False / 0.0) ----
    import re as _re2

    rng = ctx.rng("hash-equal-values")
    vals = [1, True, 1.0, 0, False, 0.0, -0.0, 10, "1", "True", "lib\\data", "lib7/x.h", "x\\", "a\\\\b"]
    leaves = [U.cls[f"{P}Leaf"](v=v, s=str(i)) for i, v in enumerate(vals)]
    # the text between the quotes is the regex as written: an escaped backslash stays an escaped backslash
    regexes = ["1$", "True", "1\\.0$", "0$", "False$", "0\\.0", "-0", "1", "[01]$", "(True|False)$", ".*0$", "lib\\\\d", "lib\\d", "x\\\\$", "a\\\\\\\\b", "a\\\\b"]
    qs = [(rx, lf) for rx in regexes for lf in leaves]
    rng.shuffle(qs)
    for rx, lf in qs:
        text = f'({P}Leaf @v="{rx}")'
        m, msg = NodeMatcher.from_pattern(text)
        ctx.evaluations += 1
        ctx.count("regex_on_hash_equal_values")
        if m is None:
            ctx.violation("well-formed-rejected", f"pattern rejected: {msg[:200]}", {"pattern": text})
            continue
        exp = _re2.match(rx, str(lf.v)) is not None
        got = m.match(lf)[0]
        if got != exp:
            ctx.violation("verdict", f"match verdict {got}, the regex applied to str(value) says {exp}", {"pattern": text, "value": repr(lf.v), "how": "hash-equal values in one history"})

    # ---- patterns that differ only in the white space inside a regex literal are different patterns ----
    ws_vals = ["a b", "a  b", "a\tb", "ab", "a\u00a0b", "a   b"]
    ws_leaves = [U.cls[f"{P}Leaf"](v=100 + i, s=x) for i, x in enumerate(ws_vals)]
    rxs = ["a b$", "a  b$", "a\tb$", "a\u00a0b$", "a   b$", "a *b$", "ab$"]
    rng.shuffle(rxs)
    for rx in rxs:
        for text in (f'({P}Leaf @s="{rx}")', f'({P}Leaf  @s="{rx}" )'):
            m, msg = NodeMatcher.from_pattern(text)
            ctx.evaluations += 1
            ctx.count("regex_inner_whitespace")
            if m is None:
                ctx.violation("well-formed-rejected", f"pattern rejected: {msg[:200]}", {"pattern": text})
                continue
            got = [m.match(lf)[0] for lf in ws_leaves]
            exp = [_re2.match(rx, lf.s) is not None for lf in ws_leaves]
            if got != exp:
                ctx.violation("verdict", "a regex literal is not applied as written (white space inside the quotes matters)", {"pattern": text, "got": got, "expected": exp, "values": ws_vals})

    # ---- a class defined again under its name between two (textually different) patterns naming it ----
    src = f"@dataclass(frozen=True)\nclass {P}Again8({P}Expr):\n    v: int = 0\n"
    prev = None
    for gen_no in range(3):
        exec(compile(src, f"<c08 again {gen_no}>", "exec", dont_inherit=True), U.module.__dict__)
        cur = U.module.__dict__[f"{P}Again8"]
        node = cur(v=gen_no)
        for text in (f"({P}Again8 @v -> g{'x' * gen_no})", f"({P}Again8 @v=\"{gen_no}\")", f"({P}Un|{P}Again8 @v=\"{gen_no}$\")"):  # (texts differ per generation: the same text may answer from the matcher cache)
            m, msg = NodeMatcher.from_pattern(text)
            ctx.evaluations += 1
            ctx.count("pattern_after_class_redefinition")
            if m is None:
                ctx.violation("well-formed-rejected", f"pattern rejected: {msg[:200]}", {"pattern": text})
                continue
            ok_new = m.match(node)[0]
            ok_old = m.match(prev)[0] if prev is not None else False
            if ok_new is not True or ok_old is not False:
                ctx.violation("verdict", "a pattern compiled after its class was defined again does not denote the class now bearing the name", {"pattern": text, "generation": gen_no, "matches_instance_of_current_class": ok_new, "matches_instance_of_previous_class": ok_old})
        prev = node

    # ---- a subclass defined after a pattern naming its base class was compiled: its instances are instances of the base ----
    # ---- and: $name on nodes means content equality - properties declared compare=False are not content ----
    pre = {}
    for text in (f"({P}Leaf)", f"({P}Un @child=({P}Leaf) -> c)", f"({P}List @items=[({P}Leaf) -> first *])", f"({P}Name|{P}Leaf @v -> v)"):
        pre[text] = NodeMatcher.from_pattern(text)[0]
    mp_pre = MultiPatternMatcher([("base", f"({P}Leaf)"), ("any", "(*)")])
    src = f"@dataclass(frozen=True)\nclass {P}Late8({P}Leaf):\n    extra: str = ''\n"
    exec(compile(src, "<c08 late>", "exec", dont_inherit=True), U.module.__dict__)
    late = U.module.__dict__[f"{P}Late8"](v=5, extra="x")
    subjects = {f"({P}Leaf)": late, f"({P}Un @child=({P}Leaf) -> c)": U.cls[f"{P}Un"](child=late), f"({P}List @items=[({P}Leaf) -> first *])": U.cls[f"{P}List"](items=(late,)), f"({P}Name|{P}Leaf @v -> v)": late}
    for text, m in pre.items():
        for how, mm in (("compiled before the subclass existed", m), ("compiled again", NodeMatcher.from_pattern(text)[0])):
            ctx.evaluations += 1
            ctx.count("subclass_defined_after_pattern_was_compiled")
            ok = mm is not None and mm.match(subjects[text])[0]
            if ok is not True:
                ctx.violation("verdict", f"an instance of a subclass defined after the pattern was compiled is not matched by the pattern naming its base class ({how})", {"pattern": text})
    got_rule = mp_pre.match(late)
    if not got_rule or got_rule[0] != "base":
        ctx.violation("multi", "MultiPatternMatcher compiled before a subclass existed skips the rule naming the base class for an instance of the subclass", {"got": repr(got_rule)[:100]})
    Cnt, Bin = U.cls[f"{P}Count"], U.cls[f"{P}Bin"]
    for da, db, exp in (("one", "two", True), ("same", "same", True)):
        a_, b_ = Cnt(items=(U.cls[f"{P}Leaf"](v=1),), doc=da), Cnt(items=(U.cls[f"{P}Leaf"](v=1),), doc=db, origin=O.build_origin(("gen", 1)))
        holder = Bin(left=a_, right=b_)
        for text in (f"({P}Bin @left -> l @right=$l)", f"({P}Bin @left=({P}Count) -> l @right=$l)"):
            m, _msg = NodeMatcher.from_pattern(text)
            ctx.evaluations += 1
            ctx.count("variable_on_nodes_differing_in_noncompare_property")
            got = m is not None and m.match(holder)[0]
            if got is not exp:
                ctx.violation("verdict", "$name on nodes is content equality: two content-equal nodes that differ in a compare=False property (and in origin) satisfy it", {"pattern": text, "docs": (da, db), "got": got})
        holder.detach()

    # ---- $name is ==, also when both fields hold one and the same object: a value that is not equal to itself (nan, a
    # user's NULL marker) does not satisfy it ----
    class _Null:
        def __eq__(self, other):
            return False

        __hash__ = object.__hash__

        def __str__(self):
            return "NULL"

    Typed = U.cls[f"{P}Typed"]
    for val, exp in ((float("nan"), False), (_Null(), False), (7, True), ("x", True)):
        for holder, text in ((U.cls[f"{P}List"](items=(Typed(ty=val),), label="n"), f"({P}List @items=[({P}Typed @ty -> t @ty=$t)])"), (Typed(ty=val), f"({P}Typed @ty -> t @ty=$t)")):
            m, _msg = NodeMatcher.from_pattern(text)
            ctx.evaluations += 1
            ctx.count("variable_on_value_not_equal_to_itself")
            got = m is not None and m.match(holder)[0]
            if got is not exp:
                ctx.violation("verdict", "$name compares with ==: a field compared with its own captured value matches exactly when that value is == to itself", {"pattern": text, "value": str(val), "got": got, "expected": exp})
            holder.detach()

    # ---- [] denotes the empty tuple only (not an empty string, not None, not a non-empty tuple) ----
    Mixc = U.cls[f"{P}Mix"]
    empties = [(U.cls[f"{P}Leaf"](v=1, s=""), "s", False), (Mixc(ti=()), "ti", True), (Mixc(ti=(1,)), "ti", False), (Mixc(ts=()), "ts", True), (Mixc(os=None), "os", False), (U.cls[f"{P}List"](items=()), "items", True), (U.cls[f"{P}List"](items=(U.cls[f"{P}Leaf"](v=2),)), "items", False), (U.cls[f"{P}Blob"](data=b""), "data", False)]
    for node, fname, exp in empties:
        text = f"({type(node).__name__} @{fname}=[])"
        m, msg = NodeMatcher.from_pattern(text)
        ctx.evaluations += 1
        ctx.count("empty_sequence_spec")
        if m is None:
            ctx.violation("well-formed-rejected", f"pattern rejected: {msg[:200]}", {"pattern": text})
            continue
        got = m.match(node)[0]
        if got != exp:
            ctx.violation("verdict", f"match verdict {got} for '[]' against {getattr(node, fname)!r}; [] matches the empty tuple only", {"pattern": text, "value": repr(getattr(node, fname))})
