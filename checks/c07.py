"""C07 — XPath search and XPath match agree with each other and the documented semantics.

REF, three-way: the xpath is generated as an AST and rendered to text; a reference
evaluator works top-down on spec positions; findall(root) (multiset), match(root, n)
for every node n, find(), and the node.find / node.findall front-ends must all
agree with it.
"""
from __future__ import annotations

import sys

from vlib import gen as G
from vlib import refxpath as RX
from vlib.spec import S, Pos, build, preorder, spec_json, child_slots, deep_copy, node_at
from vlib.universe import core_universe

LEVEL = "exploration"
TYPECHECK_OK = True  # every generated value conforms to its annotation: shards may run with RUNTIME_TYPE_CHECK on
RULE = (
    "cases = (xpath AST rendered to text, tree); xpaths with 1-4 steps, every combination of anywhere/field/index/class "
    "per step, indices 0-14, '[]', relative and absolute spelling, '///'; 75% derived from a real position of the tree "
    "and then perturbed; trees over the core universe without shared objects, tuples up to 15, subclass hierarchies; "
    "every node of the tree is a match() argument; non-trivial = expected result set non-empty; distinct = distinct "
    "(xpath text, tree fingerprint)"
)
ASSUMPTIONS = ["reference evaluator encodes the documented semantics (virtual super-root; the root satisfies no field/index constraint)"]
MUST_SEE = ["virtual_subclass_steps", "deep_3000_xpath_queries", "equal_twin_trees_matched_in_turn", "refused_text_before_compilation", "index_ge_257_match", "second_tree_sharing_nodes", "late_defined_class", "index_ge_10_match", "first_step_field", "root_matches", "two_anywhere", "nonempty", "relative_spelling", "index_only_step"]
CONFIG = {
    "quick": {"shards": 16, "trees": 50, "xpaths": 70, "watchdog_s": 300},
    "thorough": {"shards": 32, "trees": 300, "xpaths": 120, "watchdog_s": 3000},
}


def make_tree(rng, U, case, wide: bool):
    P = U.P
    if wide:
        kids = tuple(S(rng.choice([f"{P}Leaf", f"{P}Name", f"{P}Leaf2"]), {"v": i}) for i in range(rng.randint(11, 15) if case % 16 != 8 else rng.choice([258, 300])))
        inner = S(f"{P}List", {}, {"items": kids, "root": S(f"{P}Leaf", {"v": 99})})
        body = tuple([inner] + [S(f"{P}Un", {}, {"child": S(f"{P}Leaf", {"v": j})}) for j in range(rng.randint(10, 13))])
        kids2 = tuple(S(rng.choice([f"{P}Leaf", f"{P}Un"]), {"v": 1}) if False else S(f"{P}Leaf", {"v": i}) for i in range(12))
        mix = S(f"{P}Mix", {}, {"kids": kids2, "id_": deep_copy(inner)})
        return S(f"{P}Stmt", {}, {"body": body + (mix,), "next": S(f"{P}Stmt", {}, {"body": (S(f"{P}Leaf"),)})})
    tg = G.TreeGen(rng, U, max_nodes=30, max_depth=6, max_width=12, share=0.0, twin=0.2, p_origin=0.1, hostile=0.0)
    return tg.tree()


def deep_leg(ctx, U, ASTXpath):
    """findall / match are promised for all trees: a chain 3000 levels deep under a list, searched and matched with the
    interpreter's default recursion limit ('//' in first and in later steps)"""
    P = U.P
    tip = U.cls[f"{P}Leaf"](v=777)
    n, chain = tip, [tip]
    for _ in range(3000):
        n = U.cls[f"{P}Un"](child=n)
        chain.append(n)
    top = U.cls[f"{P}List"](items=(U.cls[f"{P}Leaf"](v=1), n))
    tree = top.to_tree()
    old = sys.getrecursionlimit()
    sys.setrecursionlimit(1000)
    try:
        for text, exp_find, matching, not_matching in (
            (f"/{P}List//{P}Leaf", 2, [tip, top.items[0]], [chain[5], top]),
            (f"/{P}List/@items[1]{P}Un//@child {P}Leaf", 1, [tip], [top.items[0], chain[1]]),
            (f"//{P}Un//{P}Leaf", 1, [tip], [top.items[0]]),
            (f"/{P}List//{P}Un/@child {P}Un", 2999, [chain[1], chain[1500], chain[2999]], [tip, chain[3000]]),
            (f"/{P}Call//{P}Leaf", 0, [], [tip, chain[7]]),
            (f"/{P}Leaf//{P}Leaf", 0, [], [tip]),
        ):
            ctx.evaluations += 1
            ctx.count("deep_3000_xpath_queries")
            try:
                xp = ASTXpath(text)
                got = (len(list(xp.findall(top))), [xp.match(tree, x) for x in matching], [xp.match(top, x) for x in not_matching])
            except RecursionError:
                got = "RecursionError"
            exp = (exp_find, [True] * len(matching), [False] * len(not_matching))
            if got != exp:
                ctx.violation("deep-tree", f"{text} on a tree 3000 levels deep gave {got!r}, expected {exp!r}", {"depth": 3000, "xpath": text})
    finally:
        sys.setrecursionlimit(old)
    del tree
    top.detach()


def run_shard(ctx):
    sys.setrecursionlimit(20000)
    from pyoak.match.xpath import ASTXpath

    U = core_universe()
    P = U.P
    classes = dict(U.cls)
    from pyoak.node import ASTNode

    classes["ASTNode"] = ASTNode
    class_names = list(U.order) + ["ASTNode"]
    field_names = sorted({f.name for c in U.order for f in U.child_fields(c)})

    for case in ctx.cases(ctx.params["trees"]):
        rng = ctx.rng(case)
        s = make_tree(rng, U, case, wide=(case % 4 == 0))
        root = build(U, s)
        pos = preorder(U, s)
        kcache = {}

        def kids_of(p):
            k = kcache.get(id(p))
            if k is None:
                k = [q for q in pos if q.parent is p]
                kcache[id(p)] = k
            return k

        twin = [None]
        obj = {}
        for p in pos:
            if p.parent is None:
                obj[id(p)] = root
            else:
                v = getattr(obj[id(p.parent)], p.field)
                obj[id(p)] = v if p.index is None else v[p.index]
        root_pos = pos[0]
        # kids_of must use the same Pos objects as `pos`
        by_parent: dict[int, list] = {}
        for q in pos:
            if q.parent is not None:
                by_parent.setdefault(id(q.parent), []).append(q)
        kids_of = lambda p: by_parent.get(id(p), [])  # noqa: E731
        obj_of = lambda p: obj[id(p)]  # noqa: E731

        def cls_choices(p):
            o = obj[id(p)]
            return [c.__name__ for c in type(o).__mro__ if c.__name__ in classes]

        tree_fp = G.shape_fingerprint(U, s)
        if case == 0 and ctx.shard == 0:
            ctx.sample({"tree": spec_json(s)})
        tree = root.to_tree()
        # another Tree that re-uses some of these node objects at other positions (built after the first, both kept)
        picks = [o for o in (obj[id(p)] for p in rng.sample(pos, min(3, len(pos)))) if isinstance(o, U.cls[f"{P}Expr"])]
        other_tree = U.cls[f"{P}List"](items=tuple(dict.fromkeys(picks)), root=None).to_tree() if picks else None
        if other_tree is not None:
            ctx.count("second_tree_sharing_nodes")
        for k in range(ctx.params["xpaths"] if len(pos) <= 100 else 16):
            path = RX.gen_path(rng, pos, field_names, class_names, cls_choices)
            relative = path[0][0] and rng.random() < 0.5
            extra = rng.randrange(len(path)) if rng.random() < 0.08 else -1
            text = RX.render(path, relative=relative, extra_slash=extra)
            exp = RX.ref_eval(path, root_pos, kids_of, obj_of, classes)
            exp_ids = sorted(id(obj[id(p)]) for p in exp)
            ctx.evaluations += 1
            detail = {"xpath": text, "ast": path, "tree": spec_json(s)}
            if rng.random() < 0.2:
                # a text that is refused is compiled right before (nothing of it may survive into the next compilation)
                try:
                    ASTXpath(rng.choice(["//", "//@items[", "NoSuchClass7", f"/{P}Leaf//", "///", f"//@[1]{P}Leaf", f"/{P}List//@items["]))
                except Exception:  # noqa: BLE001
                    ctx.count("refused_text_before_compilation")
            try:
                xp = ASTXpath(text)
            except Exception as e:  # noqa: BLE001
                ctx.violation("compile", f"grammar-derived xpath rejected: {type(e).__name__}: {e}", detail)
                continue
            got = list(xp.findall(root))
            got_ids = sorted(id(n) for n in got)
            idx = {id(obj[id(p)]): i for i, p in enumerate(pos)}
            if got_ids != exp_ids:
                d = dict(detail)
                d["findall"] = sorted(idx.get(i, "?") for i in got_ids)
                d["expected"] = sorted(idx[i] for i in exp_ids)
                ctx.violation("findall-vs-reference", "findall differs from the documented semantics", d)
            if k % 2 and picks:
                # the other Tree is built again right before the kept Tree is used
                other_tree = U.cls[f"{P}List"](items=tuple(dict.fromkeys(picks)), root=None).to_tree()
            if len(pos) > 100:
                # very wide trees: match() is asked about every expected node and a sample of the others
                exp_set = set(exp_ids)
                cand = [p for p in pos if id(obj[id(p)]) in exp_set][:60] + rng.sample(pos, 40)
                cand_ids = {id(obj[id(p)]) for p in cand}
                m_ids = sorted(id(obj[id(p)]) for p in {id(p): p for p in cand}.values() if xp.match(tree if k % 2 else root, obj[id(p)]))
                exp_ids_m = sorted(i for i in exp_ids if i in cand_ids)
                got_ids_m = sorted(i for i in got_ids if i in cand_ids)
            else:
                m_ids = sorted(id(obj[id(p)]) for p in pos if xp.match(tree if k % 2 else root, obj[id(p)]))
                exp_ids_m, got_ids_m = exp_ids, got_ids
            if m_ids != exp_ids_m:
                d = dict(detail)
                d["match"] = sorted(idx[i] for i in m_ids)
                d["expected"] = sorted(idx[i] for i in exp_ids_m)
                ctx.violation("match-vs-reference", "match differs from the documented semantics", d)
            if m_ids != got_ids_m:
                d = dict(detail)
                d["match"] = sorted(idx[i] for i in m_ids)
                d["findall"] = sorted(idx.get(i, "?") for i in got_ids)
                ctx.violation("findall-vs-match", "findall and match disagree", d)
            if len(pos) <= 40 and k % 3 == 0:
                # the same question about a distinct but equal tree (the same text parsed twice), root spelling, right after the
                # first tree was asked - and then the first tree again
                if twin[0] is None:
                    twin[0] = build(U, deep_copy(s))
                    ctx.count("equal_twin_trees_matched_in_turn")
                try:
                    m2 = [i for i, p in enumerate(pos) if xp.match(twin[0], node_at(twin[0], p.path))]
                    m3 = [i for i, p in enumerate(pos) if xp.match(root, obj[id(p)])]
                except Exception as e:  # noqa: BLE001
                    ctx.violation("match-twin-tree", f"match on an equal tree asked right after the first one raised {type(e).__name__}: {e}", detail)
                    continue
                e2 = sorted(idx[i] for i in exp_ids)
                if m2 != e2 or m3 != e2:
                    ctx.violation("match-twin-tree", "match gives other answers on an equal tree asked right after the first one (or on the first one asked again)", dict(detail, twin=m2, again=m3, expected=e2))
            first = got[0] if got else None
            try:
                # the compiled object is used again (second search, front-ends given the object or the text)
                again = list(xp.findall(root))
                f2 = root.find(text)
                f3 = root.find(xp)
                fa = list(root.findall(text))
                fb = list(root.findall(xp))
            except Exception as e:  # noqa: BLE001
                ctx.violation("find-frontend", f"a second search with the same compiled xpath / a front-end raised {type(e).__name__}: {e}", detail)
                continue
            if f2 is not first or f3 is not first or [id(x) for x in fa] != [id(x) for x in got] or [id(x) for x in fb] != [id(x) for x in got] or [id(x) for x in again] != [id(x) for x in got]:
                ctx.violation("find-frontend", "find / findall front-ends (or a second search with the same compiled xpath) differ from the first ASTXpath.findall", detail)
            if exp:
                ctx.count("nonempty")
                if any(st[2] not in (None, "any") and st[2] >= 257 for st in path):
                    ctx.count("index_ge_257_match")
                ctx.fp((text, tree_fp))
                if any(p is root_pos for p in exp):
                    ctx.count("root_matches")
                if any(st[2] not in (None, "any") and st[2] >= 10 for st in path):
                    ctx.count("index_ge_10_match")
                if sum(1 for st in path if st[0]) >= 2:
                    ctx.count("two_anywhere")
                if relative:
                    ctx.count("relative_spelling")
                if any(st[1] is None and st[2] not in (None, "any") for st in path):
                    ctx.count("index_only_step")
            if path[0][1] is not None:
                ctx.count("first_step_field")
            if k < 2 and case == 0 and ctx.shard == 0:
                ctx.sample({"xpath": text, "expected_positions": [list(p.path) for p in exp]})
        ctx.count("trees")

    if ctx.only_case is None and ctx.shard % 4 == 1:
        deep_leg(ctx, U, ASTXpath)

    # ---- a step naming an abstract base selects instances of its virtual subclasses too (isinstance is the test) ----
    from abc import ABC

    vname = f"{P}Scope7"
    if vname not in U.module.__dict__:
        exec(compile(f"class {vname}({P}Expr, ABC):\n    pass\n", "<c07 abc>", "exec", dont_inherit=True), U.module.__dict__)
        U.module.__dict__[vname].register(U.cls[f"{P}Un"])
    un = U.cls[f"{P}Un"](child=U.cls[f"{P}Leaf"](v=71))
    vroot = U.cls[f"{P}List"](items=(un, U.cls[f"{P}Leaf"](v=72)))
    for text, exp in ((f"//{vname}", [un]), (f"/{P}List/@items[0]{vname}", [un]), (f"//{vname}/@child {P}Leaf", [un.child]), (f"/{P}List/{vname}/{P}Leaf", [un.child])):
        ctx.evaluations += 1
        ctx.count("virtual_subclass_steps")
        try:
            xp = ASTXpath(text)
            got = list(xp.findall(vroot))
            m = [n for n in (vroot, un, un.child, vroot.items[1]) if xp.match(vroot, n)]
        except Exception as e:  # noqa: BLE001
            ctx.violation("virtual-subclass", f"xpath naming an abstract base with a registered virtual subclass: {type(e).__name__}: {e}", {"xpath": text})
            continue
        if [id(x) for x in got] != [id(x) for x in exp] or [id(x) for x in m] != [id(x) for x in exp]:
            ctx.violation("virtual-subclass", "a step naming an abstract base class does not select / match an instance of its registered virtual subclass", {"xpath": text, "found": len(got), "matched": len(m)})
    vroot.detach()

    # ---- a class defined after an xpath naming it was first looked at ----
    name = f"{P}Late7"
    try:
        ASTXpath(f"//{name}")
        early = "compiled"
    except Exception as e:  # noqa: BLE001
        early = type(e).__name__
    src = f"@dataclass(frozen=True)\nclass {name}({P}Expr):\n    v: int = 0\n"
    exec(compile(src, "<c07 late>", "exec", dont_inherit=True), U.module.__dict__)
    late = U.module.__dict__[name]
    ln = late(v=1)
    root = U.cls[f"{P}List"](items=(ln, U.cls[f"{P}Leaf"](v=2)))
    ctx.count("late_defined_class")
    for text in (f"//{name}", f"/{P}List/@items {name}", f"@items[0]{name}"):
        ctx.evaluations += 1
        try:
            xp = ASTXpath(text)
            got = list(xp.findall(root))
            m = [n for n in (root, ln, root.items[1]) if xp.match(root, n)]
        except Exception as e:  # noqa: BLE001
            ctx.violation("late-class", f"xpath naming a class defined after an earlier (rejected) look-up: {type(e).__name__}: {e}", {"xpath": text, "early": early})
            continue
        if [id(x) for x in got] != [id(ln)] or [id(x) for x in m] != [id(ln)]:
            ctx.violation("late-class", "xpath naming a class defined after an earlier look-up does not find / match its instance", {"xpath": text, "early": early, "found": len(got), "matched": len(m)})
