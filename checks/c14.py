"""C14 — duplicate and replace produce faithful, independent copies.

REF + INV: dumps of original and result are compared position by position; the
object sets must be disjoint (duplicate) resp. identical for untouched fields
(replace); registry effects are checked by lookups; the id of a replace result is
compared with the id a control construction obtains in the same registry state.
"""
from __future__ import annotations

import dataclasses
import sys

from vlib import gen as G
from vlib import origins as O
from vlib.regmodel import subtree_objects
from vlib.spec import S, build, deep_copy, dump_node, preorder, spec_json, real_preorder
from vlib.universe import core_universe

LEVEL = "exploration"
RULE = (
    "cases = (tree, operation): duplicate() of trees with tuples, optionals, shared subtrees, non-init / non-comparable "
    "fields, stale nodes whose id is re-used by a live twin inside the same tree; ASTNode.replace / dataclasses.replace "
    "with property-only, child-only (another node, an ==-equal twin, None), both, non-comparable-only and no-op changes, on "
    "registered and detached originals with 0-2 registered twins; non-trivial = tree with >= 2 nodes or a replace with a "
    "child change; distinct = distinct (tree fingerprint, operation, change kinds)"
)
ASSUMPTIONS = ["control construction: Cls(**merged fields) built in the same registry state gives 'the id a fresh construction would get' (id determinism itself is C03's subject)"]
MUST_SEE = ["duplicate_of_node_holding_default_child_objects", "int_given_for_float_property", "remodelled_class_duplicate", "rejected_replace_before_duplicate", "value_churn_before_duplicate", "dup_of_node_from_edited_payload", 
    "dup_tuple_depth_ge2", "dup_shared", "dup_stale_twin_in_tree", "replace_detached_with_live_twin", "replace_noncompare_only",
    "replace_child_equal_twin", "dc_replace", "control_constructions", "dup_noninit_fields",
]
CONFIG = {
    "quick": {"shards": 16, "cases": 1200, "watchdog_s": 300},
    "thorough": {"shards": 32, "cases": 1500, "watchdog_s": 3000},
}


def run_shard(ctx):
    sys.setrecursionlimit(20000)
    from pyoak.node import NODE_REGISTRY, ASTNode

    U = core_universe()
    P = U.P
    Mix = f"{P}Mix"
    from vlib.universe import warm_up

    ctx.extra["first_use_order"] = warm_up(U, ctx.rng("warm-up"), ctx)[:6]
    for case in ctx.cases(ctx.params["cases"]):
        rng = ctx.rng(case)
        tg = G.TreeGen(rng, U, max_nodes=rng.choice([3, 9, 20]), max_depth=6, max_width=4, share=0.2 if case % 3 == 0 else 0.0, twin=0.25, p_origin=0.4, hostile=0.05, exclude=(f"{P}Ser",), opaque=True)
        s = tg.tree()
        stale_twin = False
        if case % 4 == 1:
            # a stale node and a live twin that re-uses its id, differing only in a non-comparable value, under one parent
            m1 = S(Mix, {"nc": "first", "b": True, "ti": (1, 2)}, {"kids": (S(f"{P}Leaf", {"v": 5}),)})
            m2 = deep_copy(m1)
            m2.props["nc"] = "second"
            m1.tag = "detach_after_build"
            s = S(f"{P}Call", {}, {"args": (m1, s) if isinstance(s, S) and U.is_sub(s.cls, f"{P}Expr") else (m1,), "kwargs": (m2,)})
            stale_twin = True

        def after(sp, node):
            if sp.tag == "detach_after_build":
                node.detach_self()

        # values that are == and hash-equal to values used in the tree, but of another type, pass through first
        for v_ in (1, 0, True, False, 1.0, 0.0, -0.0):
            U.cls[f"{P}Leaf"](v=v_, s="alias").detach()
            U.cls[f"{P}Mix"](f=v_ if isinstance(v_, float) else float(v_), b=bool(v_)).detach()
        root = build(U, s, after=after)
        pos = preorder(U, s)
        fp = G.shape_fingerprint(U, s)
        if case < 1 and ctx.shard == 0:
            ctx.sample({"tree": spec_json(s)})

        def bad(mech, what, **d):
            d["tree"] = spec_json(s)
            ctx.violation(mech, what, d)

        # ------------------------------------------------------------ duplicate
        orig_objs = {id(o): o for o in subtree_objects(U, root)}
        n_positions = len(pos)
        if len(orig_objs) < n_positions:
            ctx.count("dup_shared")
        if stale_twin:
            ctx.count("dup_stale_twin_in_tree")
        if any(p.spec.cls == Mix for p in pos):
            ctx.count("dup_noninit_fields")
        if any(p.index is not None and p.depth >= 2 for p in pos):
            ctx.count("dup_tuple_depth_ge2")
        if case % 3 == 2:
            # history: a replace() on the root was rejected before (unknown field / refusing class)
            try:
                root.replace(no_such_field=1)
            except Exception:  # noqa: BLE001
                ctx.count("rejected_replace_before_duplicate")
        if case % 5 == 1:
            # history: several hundred other property values pass through the library between building and copying
            churn = [U.cls[f"{P}Leaf"](v=50000 + case * 1000 + i, s=f"churn{i}") for i in range(300)]
            for x_ in churn:
                x_.detach()
            del churn, x_
            ctx.count("value_churn_before_duplicate")
        reg_before = {k: v for k, v in ((o.id, o) for o in orig_objs.values()) if ASTNode.get_any(k) is v}
        try:
            d = root.duplicate()
        except Exception as e:  # noqa: BLE001
            ctx.evaluations += 1
            ctx.violation("duplicate-raised", f"duplicate() of a valid tree raised {type(e).__name__}: {e}"[:300], {"tree": spec_json(s)})
            root.detach()
            continue
        ctx.evaluations += 1
        if n_positions >= 2:
            ctx.fp((fp, "duplicate"))
        if d is root:
            bad("dup-same-object", "duplicate returned the original")
        try:
            if not (d == root):
                bad("dup-not-equal", "duplicate is not == to the original")
        except Exception as e:  # noqa: BLE001
            bad("dup-not-equal", f"== raised {e}")
        if dump_node(U, d, with_id=False) != dump_node(U, root, with_id=False):
            a, b = real_preorder(U, d), real_preorder(U, root)
            where = next((pa for (pa, na), (pb, nb) in zip(a, b) if dump_node(U, na, False)[:5] != dump_node(U, nb, False)[:5]), None)
            bad("dup-dump-differs", "duplicate differs from the original at some position (class, content_id, properties incl. non-comparable, origin)", path=list(where) if where else None)
        copies = real_preorder(U, d)
        for path, c in copies:
            if id(c) in orig_objs:
                bad("dup-shares-object", "a position of the copy holds an object of the original", path=list(path))
                break
            if ASTNode.get_any(c.id) is not c:
                bad("dup-not-registered", "a node of the copy is not registered under its id", path=list(path))
                break
            if c.id in reg_before:
                bad("dup-id-clash", "a copy carries the id of a registered original node", path=list(path))
                break
        for k, v in reg_before.items():
            if ASTNode.get_any(k) is not v:
                bad("dup-evicted-original", "duplicate() unregistered a node of the original")
                break
        d.detach()
        del d, copies

        # ------------------------------------------------------------ replace
        targets = [n for _, n in real_preorder(U, root)]

        def replace_round(n):
            """One replace experiment; all locals die on return (the registry is weak)."""
            cn = type(n).__name__
            mode = rng.choice(["registered", "registered", "detached", "detached_twin", "registered_twins"])
            twins = []
            if mode in ("detached", "detached_twin"):
                n.detach_self()
            if mode == "detached_twin":
                twins.append(dataclasses.replace(n))  # same content -> takes over the id
                if twins[0].id == n.id:
                    ctx.count("replace_detached_with_live_twin")
            if mode == "registered_twins":
                for _k in range(rng.randint(1, 2)):
                    twins.append(dataclasses.replace(n))
            was_registered = ASTNode.get_any(n.id) is n
            # build the change set
            changes = {}
            kinds = []
            pf = [f for f in U.prop_fields(cn) if f.init]
            cf = U.child_fields(cn)
            want = rng.choice(["prop", "child", "both", "noncompare", "noop", "origin"])
            if want in ("prop", "both") and pf:
                f = rng.choice([f for f in pf if f.compare] or pf)
                changes[f.name] = G.gen_value(rng, U, f, hostile=0.0)
                ff = [x for x in pf if x.shape == "float"]
                if ff and rng.random() < 0.5:
                    # an int given for a float property (acceptable for float): the field holds what was given
                    f = ff[0]
                    changes = {f.name: rng.choice([3, 2**53 + 1, -1, 0, True])}
                    ctx.count("int_given_for_float_property")
                kinds.append("prop")
            if want in ("child", "both") and cf:
                f = rng.choice(cf)
                cur = getattr(n, f.name)
                if f.shape == "opt" or f.shape == "one":
                    r = rng.random()
                    if cur is not None and r < 0.4:
                        changes[f.name] = cur.duplicate()  # == twin, distinct object
                        kinds.append("child_equal_twin")
                        ctx.count("replace_child_equal_twin")
                    elif f.shape == "opt" and r < 0.6:
                        changes[f.name] = None
                        kinds.append("child_none")
                    else:
                        cands = [c for c in U.concrete_subs(f.types) if all(x.shape in ("opt", "tuple") for x in U.child_fields(c))]
                        changes[f.name] = U.cls[rng.choice(cands)]()
                        kinds.append("child_new")
                elif f.shape == "tuple":
                    cur = tuple(cur)
                    if cur and rng.random() < 0.5:
                        changes[f.name] = tuple(c.duplicate() for c in cur)
                        kinds.append("child_equal_twin")
                        ctx.count("replace_child_equal_twin")
                    else:
                        changes[f.name] = cur[1:] if cur else ()
                        kinds.append("child_tuple")
            if want == "noncompare":
                ncf = [f for f in pf if not f.compare]
                if ncf:
                    changes[ncf[0].name] = "nc-" + str(rng.randrange(99))
                    kinds.append("noncompare")
            if want == "noop" and pf:
                f = rng.choice(pf)
                v = getattr(n, f.name)
                changes[f.name] = tuple(list(v)) if isinstance(v, tuple) else v
                kinds.append("noop")
            if want == "origin" or not changes:
                changes["origin"] = O.build_origin(O.gen_origin(rng, p_no=0.1))
                kinds.append("origin")
            use_dc = rng.random() < 0.35
            init_fields = [f for f in U.all_fields(cn) if f.init]
            before_vals = {f.name: getattr(n, f.name) for f in init_fields}
            base_id = n.id.split("_")[0]
            twin_registered = any(o is not n and o.id.split("_")[0] == base_id for o in list(NODE_REGISTRY.values()))
            ctx.evaluations += 1
            ctx.fp((fp, "dcreplace" if use_dc else "replace", tuple(kinds), mode))
            try:
                new = dataclasses.replace(n, **changes) if use_dc else n.replace(**changes)
            except Exception as e:  # noqa: BLE001
                bad("replace-raised", f"replace with valid changes raised {type(e).__name__}: {e}", changes=sorted(changes), mode=mode)
                return
            info = dict(changes=sorted(changes), kinds=kinds, mode=mode, dataclasses_replace=use_dc, cls=cn, orig_id=n.id, was_registered=was_registered, twin_ids=[t.id for t in twins])
            if new is n or type(new) is not type(n):
                bad("replace-class", "replace did not return a new node of the same class", **info)
            for f in init_fields:
                got = getattr(new, f.name)
                exp = changes[f.name] if f.name in changes else before_vals[f.name]
                if got is not exp:
                    bad("replace-field-identity", f"field {f.name!r} of the result is not the {'given' if f.name in changes else 'original'} object", **info)
                    break
            if ASTNode.get_any(new.id) is not new:
                bad("replace-not-registered", "replace result is not registered under its id", **info)
            if use_dc:
                ctx.count("dc_replace")
                if was_registered:
                    if ASTNode.get_any(n.id) is not n:
                        bad("dcreplace-unregistered-original", "dataclasses.replace unregistered the original", **info)
                    if new.id == n.id:
                        bad("dcreplace-same-id", "dataclasses.replace of a registered original yielded the same id", **info)
            else:
                if ASTNode.get_any(n.id) is n:
                    bad("replace-original-still-registered", "ASTNode.replace left the original registered", **info)
                # control construction
                new.detach_self()
                merged = {f.name: getattr(new, f.name) for f in init_fields}
                ctrl = type(n)(**merged)
                ctx.count("control_constructions")
                cid = ctrl.id
                ctrl.detach_self()
                if new.id != cid:
                    bad("replace-id", "replace result's id differs from the id of a fresh construction with the original absent", got=new.id, control=cid, **info)
                only_nc = all((lambda f: f.role == "prop" and not f.compare)(next(f for f in init_fields if f.name == k)) for k in changes)
                if only_nc:
                    ctx.count("replace_noncompare_only")
                    # (an original that still carries a collision suffix from a twin that is gone by now gets
                    # the un-suffixed id, which is what a fresh construction gets: covered by the control above)
                    if not twin_registered and n.id == base_id and new.id != n.id:
                        bad("replace-id", "only non-comparable fields changed and no twin registered, but the id changed", got=new.id, orig=n.id, **info)
            for t in twins:
                t.detach_self()
            # nothing created in this round may linger (the registry is weak: a lingering
            # reference that dies between replace and the control construction changes ids)
            new.detach_self()
            new = ctrl = twins = before_vals = changes = merged = None
            # keep the tree usable for the next round

        for _ in range(3):
            replace_round(rng.choice(targets))
        root.detach()

    # ---- originals that came out of a payload whose stored ids no longer match its (hand-edited) content ----
    def edit_first_int(d):
        if isinstance(d, dict):
            if isinstance(d.get("v"), int) and not isinstance(d.get("v"), bool):
                d["v"] += 1000
                return True
            return any(edit_first_int(x) for x in d.values())
        if isinstance(d, list):
            return any(edit_first_int(x) for x in d)
        return False

    def payload_round(k):
        rng = ctx.rng(("payload", k))
        tg = G.TreeGen(rng, U, max_nodes=8, max_depth=4, max_width=3, share=0.0, twin=0.0, p_origin=0.3, hostile=0.0, exclude=(f"{P}Ser", f"{P}Blob"))
        s = tg.tree()
        r0 = build(U, s)
        d = r0.as_dict()
        r0.detach()
        del r0
        if not edit_first_int(d):
            return
        root = U.cls[s.cls].as_obj(d)
        dup = root.duplicate()
        ctx.evaluations += 1
        ctx.count("dup_of_node_from_edited_payload")
        if dup is root or not (dup == root) or not (root == dup) or dump_node(U, dup, with_id=False) != dump_node(U, root, with_id=False):
            ctx.violation("dup-not-equal", "the duplicate of a tree that was read from a payload with edited content is not == to it", {"tree": spec_json(s), "ids": (root.id, dup.id)})
        dup.detach()
        root.detach()

    for k in range(25):
        payload_round(k)

    # ---- duplicate() of an instance of a class that was defined again (more child fields) after its first version was used ----
    from vlib.universe import remodelled_class

    old_c, new_c, leaf_c = remodelled_class(U, "C14")
    a_, b_, c_, d_ = leaf_c(v=31), leaf_c(v=32), leaf_c(v=33), leaf_c(v=34)
    n_ = new_c(first=a_, second=(b_, c_), third=d_, v=5)
    dup_ = n_.duplicate()
    ctx.evaluations += 1
    ctx.count("remodelled_class_duplicate")
    shared = [nm for nm, x, y in (("first", dup_.first, a_), ("second[0]", dup_.second[0], b_), ("second[1]", dup_.second[1], c_), ("third", dup_.third, d_)) if x is y]
    if shared or not (dup_ == n_) or dup_ is n_:
        ctx.violation("dup-shares-object", "the duplicate of a node whose class was defined again (more child fields) shares objects with the original", {"class": new_c.__name__, "shared_positions": shared})
    dup_.detach()
    n_.detach()

    # ---- child fields that declare a node (or a tuple of nodes) as their dataclass default: an instance left at the default
    # holds those very objects, and its duplicate holds copies of them like of any other child ----
    P = U.P
    src = (
        f"{P}DEFAULT_KID = {P}Un(child={P}Leaf(v=1401, s='default'))\n{P}DEFAULT_KIDS = ({P}Leaf(v=1402), {P}Leaf(v=1403))\n\n\n"
        f"@dataclass(frozen=True)\nclass {P}Defaulted({P}Expr):\n    v: int = 0\n    kid: {P}Expr = {P}DEFAULT_KID\n    kids: tuple[{P}Expr, ...] = {P}DEFAULT_KIDS\n    other: {P}Expr | None = None\n"
    )
    exec(compile(src, "<c14 default kid>", "exec", dont_inherit=True), U.module.__dict__)
    DK = U.module.__dict__[f"{P}Defaulted"]
    dkid, dkids = U.module.__dict__[f"{P}DEFAULT_KID"], U.module.__dict__[f"{P}DEFAULT_KIDS"]
    for label, node in (("left at the defaults", DK(v=1)), ("defaults given explicitly elsewhere", DK(v=2, kid=U.cls[f"{P}Leaf"](v=9), other=dkid)), ("one default kept", DK(v=3, kids=(U.cls[f"{P}Leaf"](v=8),)))):
        dup_ = node.duplicate()
        ctx.evaluations += 1
        ctx.count("duplicate_of_node_holding_default_child_objects")
        orig_objs = {id(x.node) for x in node.dfs()} | {id(node)}
        shared = [type(x.node).__name__ for x in dup_.dfs() if id(x.node) in orig_objs]
        if shared or dup_ is node or not (dup_ == node) or dup_.content_id != node.content_id:
            ctx.violation("dup-shares-object", f"the duplicate of a node whose child fields hold the objects declared as field defaults ({label}) shares nodes with the original or is not == to it", {"shared_classes": shared, "equal": dup_ == node})
        dup_.detach_self()
        node.detach_self()
