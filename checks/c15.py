"""C15 — origin algebra: interval laws, hull merging, flat multi-origins, exact slices.

Shard 0 enumerates the code point / range grid completely (pairs and triples);
all shards run the reference model of '+', merge_origins and concat_origins on
tuples of up to four origins of every kind.
"""
from __future__ import annotations

import itertools

from vlib import origins as O

LEVEL = "exploration"
RULE = (
    "grid: indices 0..6 over a fixed 3-line text (line/column derived from the index), all 28 well-formed ranges, all "
    "784 pairs and 21952 triples, ill-formed points/ranges on the grid extended by -1 (enumerated completely, shard 0); "
    "origins: all ordered pairs over a reduced set of single origins (every kind x 3 sources) exhaustively, and random "
    "tuples of 2-4 origins incl. flat multi-origins as operands for '+', merge_origins, concat_origins, checked against a "
    "reference fold; get_raw on every (text, range); non-trivial = tuple with >= 2 non-empty operands or a grid "
    "pair/triple; distinct = distinct canonical operand tuples"
)
ASSUMPTIONS = [
    "GeneratedCodeOrigin is a code origin for the purpose of '+' (it subclasses CodeOrigin)",
    "points with equal index but different line/column are compared like any others: by index only",
]
MUST_SEE = ["textless_twin_sources_created_first", "algebra_after_source_registry_was_cleared", "ranges_past_end_of_text", "concat_of_many_operands", "get_raw_after_file_appeared", "grid_pairs", "grid_triples", "illformed_rejected", "hull_merges", "multi_results", "multi_operands", "sourceset_results", "get_raw_checked", "nested_range_pairs", "equal_but_distinct_sources", "same_index_other_linecol"]
CONFIG = {
    "quick": {"shards": 16, "tuples": 15000, "watchdog_s": 300},
    "thorough": {"shards": 32, "tuples": 40000, "watchdog_s": 3000},
}

GRID_TEXT = "ab\ncd\ne"  # len 7 -> indices 0..6 (+ end)


def grid_checks(ctx):
    from pyoak.origin import CodePoint, CodeRange

    T = GRID_TEXT
    pts = [CodePoint(*O.point_for(T, i)) for i in range(7)]
    rngs = [(a, b, CodeRange(pts[a], pts[b])) for a in range(7) for b in range(a, 7)]
    assert len(rngs) == 28

    def bad(mech, what, **d):
        ctx.violation(mech, what, d)

    # code points: order = index order
    for i in range(7):
        for j in range(7):
            ctx.evaluations += 1
            a, b = pts[i], pts[j]
            if (a < b) != (i < j) or (a <= b) != (i <= j) or (a > b) != (i > j) or (a >= b) != (i >= j) or (a == b) != (i == j):
                bad("codepoint-order", "CodePoint comparison differs from index order", i=i, j=j)
            if min(a, b) is not (a if i <= j else b) or max(b, a) is not (b if j >= i else a):
                bad("codepoint-order", "min/max of code points wrong", i=i, j=j)
    # "ordered by index": line and column never take part in the order, also when two points
    # spell one index differently (end of a line vs. start of the next one)
    alt = [CodePoint(i, l, c) for i in (0, 3, 6) for l, c in ((1, i), (2, 0), (5, 9))]
    for a in alt + pts:
        for b in alt + pts:
            ctx.evaluations += 1
            ctx.count("same_index_other_linecol")
            if (a < b) != (a.index < b.index) or (a <= b) != (a.index <= b.index) or (a > b) != (a.index > b.index) or (a >= b) != (a.index >= b.index):
                bad("codepoint-order", "CodePoint order is not the index order", a=(a.index, a.line, a.column), b=(b.index, b.line, b.column))
    for i in (0, 3):
        x = CodeRange(CodePoint(i, 1, i), CodePoint(i + 3, 1, i + 3))
        y = CodeRange(CodePoint(i + 3, 2, 0), CodePoint(i + 5, 2, 2))  # touches x at an index spelled differently
        if not x.overlaps(y) or not y.overlaps(x) or (x < y) or (x + y).start.index != i or (x + y).end.index != i + 5:
            bad("overlaps", "ranges touching at one index (spelled with another line/column) do not overlap / merge", x=(i, i + 3), y=(i + 3, i + 5))
    # ill-formed
    for idx, line, col in itertools.product([-1, 0, 3], [-1, 0, 1, 2], [-1, 0, 2]):
        ctx.evaluations += 1
        ill = idx < 0 or line < 1 or col < 0
        try:
            CodePoint(idx, line, col)
            r = "ok"
        except ValueError:
            r = "ValueError"
        except Exception as e:  # noqa: BLE001
            r = type(e).__name__
        if ill:
            ctx.count("illformed_rejected" if r == "ValueError" else "illformed_not_rejected")
        if r != ("ValueError" if ill else "ok"):
            bad("illformed-point", "ill-formed point accepted / well-formed rejected", point=(idx, line, col), got=r)
    for a in range(7):
        for b in range(7):
            ctx.evaluations += 1
            try:
                CodeRange(pts[a], pts[b])
                r = "ok"
            except ValueError:
                r = "ValueError"
            except Exception as e:  # noqa: BLE001
                r = type(e).__name__
            if a > b:
                ctx.count("illformed_rejected" if r == "ValueError" else "illformed_not_rejected")
            if r != ("ValueError" if a > b else "ok"):
                bad("illformed-range", "range with start > end accepted / well-formed rejected", start=a, end=b, got=r)
    # ... also when line / column of the two points are spelled in whatever way (only the index decides), incl. via the helper
    from pyoak.origin import get_code_range

    for a, b in itertools.product([0, 3, 5, 8], repeat=2):
        for (la, ca), (lb, cb) in itertools.product([(1, 0), (2, 1), (2, 4), (3, 0)], repeat=2):
            for how in ("ctor", "helper"):
                ctx.evaluations += 1
                try:
                    if how == "ctor":
                        CodeRange(CodePoint(a, la, ca), CodePoint(b, lb, cb))
                    else:
                        get_code_range(a, la, ca, b, lb, cb)
                    r = "ok"
                except ValueError:
                    r = "ValueError"
                except Exception as e:  # noqa: BLE001
                    r = type(e).__name__
                if a > b:
                    ctx.count("illformed_rejected" if r == "ValueError" else "illformed_not_rejected")
                if r != ("ValueError" if a > b else "ok"):
                    bad("illformed-range", "range with start index > end index accepted / well-formed rejected (line / column spelled independently of the index)", start=(a, la, ca), end=(b, lb, cb), got=r, how=how)
    # pairs
    for (a1, b1, x), (a2, b2, y) in itertools.product(rngs, rngs):
        ctx.evaluations += 1
        ctx.count("grid_pairs")
        ctx.fp(("pair", a1, b1, a2, b2))
        d = dict(x=(a1, b1), y=(a2, b2))
        contains = a2 <= a1 and b1 <= b2  # x in y
        if (x in y) != contains:
            bad("contains", "containment differs from the index definition", **d)
        if contains and (a1, b1) != (a2, b2) and a2 <= a1 and b1 <= b2 and (a1 > a2 or b1 < b2):
            ctx.count("nested_range_pairs")
        if (x in y) and (y in x) and not (x == y):
            bad("contains", "containment is not antisymmetric", **d)
        ov = max(a1, a2) <= min(b1, b2)
        if x.overlaps(y) != ov or x.overlaps(y) != y.overlaps(x):
            bad("overlaps", "overlaps wrong or asymmetric", **d)
        if (x < y) != (b1 < a2):
            bad("lt", "a < b is not 'a ends before b starts'", **d)
        h = x + y
        hs, he = min(a1, a2), max(b1, b2)
        if (h.start.index, h.end.index) != (hs, he) or h != CodeRange(pts[hs], pts[he]):
            bad("hull", "hull is not the index hull", got=(h.start.index, h.end.index), **d)
        if not (x in h and y in h):
            bad("hull", "hull does not contain both operands", **d)
        if h != (y + x):
            bad("hull", "hull not commutative", **d)
        if (a1, b1) == (a2, b2) and h != x:
            bad("hull", "hull not idempotent", **d)
    for (a1, b1, x) in rngs:
        if not (x in x):
            bad("contains", "containment not reflexive", x=(a1, b1))
    # triples
    for (a1, b1, x), (a2, b2, y), (a3, b3, z) in itertools.product(rngs, rngs, rngs):
        ctx.evaluations += 1
        ctx.count("grid_triples")
        if (x in y) and (y in z) and not (x in z):
            bad("contains", "containment not transitive", x=(a1, b1), y=(a2, b2), z=(a3, b3))
        if ((x + y) + z) != (x + (y + z)):
            bad("hull", "hull not associative", x=(a1, b1), y=(a2, b2), z=(a3, b3))
    ctx.fp(("triples", "all"))
    ctx.extra["grid_enumerated_completely"] = True


# ---------------------------------------------------------------------------
# origins
# ---------------------------------------------------------------------------
def is_code(spec):
    return spec[0] in ("code", "gen")


def code_range(spec):
    return (spec[2], spec[3]) if spec[0] == "code" else (0, 0)


def ref_members(spec):
    """flat list of non-empty member specs of an operand"""
    if spec[0] == "no":
        return []
    if spec[0] == "multi":
        return list(spec[1])
    return [spec]


def ref_merge(specs):
    """reference for merge_origins: returns ('same', i) | ('no',) | ('members', [specs])"""
    if len(specs) == 1:
        return ("same", 0)
    mem = []
    for s in specs:
        mem.extend(ref_members(s))
    if not mem:
        return ("no",)
    return ("members", mem)


def ref_add(a, b):
    """reference for a + b on specs: returns a spec-like description"""
    if is_code(a) and is_code(b) and a[1] == b[1]:
        (s1, e1), (s2, e2) = code_range(a), code_range(b)
        if max(s1, s2) <= min(e1, e2):
            return ("code", a[1], min(s1, s2), max(e1, e2))
    mem = ref_members(a) + ref_members(b)
    if not mem:
        return ("no",)
    if len(mem) == 1:
        return mem[0]
    return ("multi", tuple(mem))


def canon_of_result_spec(spec):
    """canonical form of an expected result; hull results are always plain CodeOrigin"""
    return O.canon_spec(spec)


def check_multi(ctx, mo, exp_member_canons, detail):
    from pyoak.origin import SETS_DELIM, URI_DELIM, MultiOrigin, NoOrigin, SourceSet

    ok = True
    mem = list(mo.origins)
    if any(isinstance(m, (MultiOrigin, NoOrigin)) for m in mem):
        ctx.violation("multi-not-flat", "multi-origin nested or containing NoOrigin", detail)
        ok = False
    got = [O.canon_real(m) for m in mem]
    if got != exp_member_canons:
        d = dict(detail)
        d["got_members"] = got
        d["exp_members"] = exp_member_canons
        ctx.violation("multi-members", "multi-origin members differ from the non-empty operands in order", d)
        return False
    srcs = [m.source for m in mem]
    csrc = [O.canon_source(s) for s in srcs]
    if all(c == csrc[0] for c in csrc):
        if O.canon_source(mo.source) != csrc[0]:
            ctx.violation("multi-source", "multi-origin source is not the common source", detail)
            ok = False
    else:
        ctx.count("sourceset_results")
        if not isinstance(mo.source, SourceSet) or [O.canon_source(s) for s in mo.source.sources] != csrc:
            ctx.violation("multi-source", "multi-origin source is not a source set in operand order", detail)
            ok = False
    # fqn composes the members' fqns, in order
    fq = mo.fqn
    at = 0
    for part in [m.source.fqn for m in mem] if not all(c == csrc[0] for c in csrc) else [mem[0].source.fqn]:
        k = fq.find(part, at)
        if k < 0:
            ctx.violation("multi-fqn", "multi-origin fqn does not compose the member source fqns in order", dict(detail, fqn=fq))
            ok = False
            break
        at = k + len(part)
    sep = fq.find(URI_DELIM, at) if ok else -1
    if ok:
        at = max(at, 0)
        for part in [m.position.fqn for m in mem]:
            k = fq.find(part, at)
            if k < 0:
                ctx.violation("multi-fqn", "multi-origin fqn does not compose the member position fqns in order", dict(detail, fqn=fq))
                ok = False
                break
            at = k + len(part)
    key = tuple((m.source.fqn, m.position.fqn) for m in mem)
    prev = ctx.extra.setdefault("_fqn", {}).setdefault(fq, key)
    if prev != key:
        ctx.violation("multi-fqn", "two multi-origins with different member fqns share one fqn", dict(detail, fqn=fq))
    return ok


def compare_result(ctx, res, exp, operands, detail, mech):
    """res: real origin; exp: ('same', obj) | expected spec"""
    from pyoak.origin import NO_ORIGIN, MultiOrigin

    if exp[0] == "same":
        if res is not exp[1]:
            ctx.violation(mech, "single operand must be returned as is", detail)
        return
    if exp[0] == "no":
        if res is not NO_ORIGIN:
            ctx.violation(mech, "expected NoOrigin", dict(detail, got=O.canon_real(res)))
        return
    if exp[0] == "multi":
        ctx.count("multi_results")
        if type(res) is not MultiOrigin:
            ctx.violation(mech, "expected a flat multi-origin", dict(detail, got=O.canon_real(res)))
            return
        check_multi(ctx, res, [O.canon_spec(m) for m in exp[1]], detail)
        return
    # single origin expected
    if O.canon_real(res) != O.canon_spec(exp):
        ctx.violation(mech, "result differs from the reference", dict(detail, got=O.canon_real(res), exp=O.canon_spec(exp)))
        return
    if exp[0] == "code":
        t = O.TEXTS[exp[1]]
        ctx.count("get_raw_checked")
        if res.get_raw() != O.raw_slice(exp[1], exp[2], exp[3]):
            ctx.violation("get_raw", "get_raw is not the exact slice", dict(detail, got=res.get_raw(), exp=O.raw_slice(exp[1], exp[2], exp[3])))


def single_pool():
    singles = [("no",)]
    for s in range(O.N_SOURCES):
        n = len(O.TEXTS[s])
        for a, b in itertools.combinations_with_replacement([0, 2, 3, 5], 2):
            singles.append(("code", s, min(a, n), min(b, n)))  # indices are positions in the text (clamped for short / empty texts)
        singles.append(("gen", s))
        singles.append(("xml", s, "/a/b"))
    singles.append(("xml", 0, "/c"))
    singles += [("whole", 0), ("whole", 3)]
    return list(dict.fromkeys(singles))


def origin_checks(ctx):
    from pyoak.origin import NO_ORIGIN, CodeOrigin, concat_origins, merge_origins

    if ctx.shard % 4 == 3 and not O._SRC_CACHE:
        # equal but text-less twins of the sources exist before the sources that carry the text (source records loaded from a
        # dump, the documents parsed again afterwards): origins work with the source they were given
        from pyoak.origin import MemoryTextSource, TextSource

        for i in range(3):
            MemoryTextSource(source_uri=f"mem://verif/{i}")
        for i, (_c, uri, typ) in O.SOURCE_DESCR.items():
            TextSource(uri, typ)
        ctx.count("textless_twin_sources_created_first")
    singles = single_pool()
    built = {sp: O.build_origin(sp) for sp in singles}
    if ctx.shard % 4 == 1:
        # the registry of sources is emptied after the sources exist (the documented start of a new index-based dump): the
        # algebra compares sources, not their places in that registry
        from pyoak.origin import Source

        Source.clear_registry()
        ctx.count("algebra_after_source_registry_was_cleared")

    # get_raw for every text x range (sampled start/end over the whole text incl. astral chars)
    if ctx.shard == 0:
        for s, t in enumerate(O.TEXTS):
            for a in range(0, len(t) + 1, 1):
                for b in range(a, min(len(t), a + 9) + 1):
                    co = O.build_origin(("code", s, a, b))
                    ctx.evaluations += 1
                    ctx.count("get_raw_checked")
                    if co.get_raw() != O.raw_slice(s, a, b):
                        ctx.violation("get_raw", "get_raw is not the exact slice", {"src": s, "range": (a, b)})

    # ranges reaching past the end of the text (an end-of-input token): the slice is clipped like any Python slice
    if ctx.shard == 1 or ctx.nshards == 1:
        from pyoak.origin import CodePoint, CodeRange

        for s, t in enumerate(O.TEXTS):
            n = len(t)
            for a, b in ((n, n + 1), (max(n - 2, 0), n + 3), (0, n + 1), (n + 1, n + 2), (n, n)):
                co = CodeOrigin(O.source(s), CodeRange(CodePoint(a, 1, a), CodePoint(b, 1, b)))
                head = CodeOrigin(O.source(s), CodeRange(CodePoint(0, 1, 0), CodePoint(min(a, n), 1, min(a, n))))
                ctx.evaluations += 2
                ctx.count("ranges_past_end_of_text")
                exp1 = None if O.raw_slice(s, 0, 0) is None else t[a:b]
                exp2 = None if O.raw_slice(s, 0, 0) is None else t[0:b]
                hull = head + co if min(a, n) >= a or a <= n else None
                if co.get_raw() != exp1 or (hull is not None and type(hull) is CodeOrigin and hull.get_raw() != exp2):
                    ctx.violation("get_raw", "get_raw of a range reaching past the end of the text is not the (clipped) slice", {"src": s, "range": (a, b), "got": co.get_raw(), "exp": exp1})

    def do_pair(a, b, oa, ob):
        d = {"a": a, "b": b}
        exp = ref_add(a, b)
        ctx.evaluations += 1
        if len(ref_members(a)) + len(ref_members(b)) >= 2:
            ctx.fp(("add", a, b))
        res = oa + ob
        if exp[0] == "code" and is_code(a) and is_code(b):
            ctx.count("hull_merges")
            if type(res) is not CodeOrigin:
                ctx.violation("add-hull", "overlapping code origins of one source must give one CodeOrigin over the hull", dict(d, got=O.canon_real(res)))
            else:
                compare_result(ctx, res, exp, None, d, "add-hull")
        else:
            if exp[0] not in ("multi", "no") and len(ref_members(a)) + len(ref_members(b)) == 1:
                # the single survivor itself
                surv = oa if ref_members(a) else ob
                if a[0] != "multi" and b[0] != "multi":
                    compare_result(ctx, res, ("same", surv), None, d, "add-single")
                else:
                    compare_result(ctx, res, exp, None, d, "add-single")
            else:
                compare_result(ctx, res, exp, None, d, "add")
        # merge_origins on the same pair
        m = merge_origins(oa, ob)
        rm = ref_merge([a, b])
        ctx.evaluations += 1
        if rm[0] == "no":
            compare_result(ctx, m, ("no",), None, d, "merge")
        elif len(rm[1]) == 1:
            if O.canon_real(m) != O.canon_spec(rm[1][0]):
                ctx.violation("merge", "merge with one non-empty operand must return it", d)
        else:
            compare_result(ctx, m, ("multi", tuple(rm[1])), None, d, "merge")
            # members are the very operand objects
            if a[0] not in ("multi", "no") and b[0] not in ("multi", "no") and type(m).__name__ == "MultiOrigin":
                if m.origins[0] is not oa or m.origins[1] is not ob:
                    ctx.violation("merge", "merge_origins must list the operand objects themselves", d)

    if ctx.shard < 4:
        # exhaustive ordered pairs over the single pool, split over 4 shards
        for i, a in enumerate(singles):
            if i % 4 != ctx.shard:
                continue
            for b in singles:
                do_pair(a, b, built[a], built[b])
        ctx.count("pairs_exhaustive_slices")

    for case in ctx.cases(ctx.params["tuples"]):
        rng = ctx.rng(case)
        k = rng.randint(1, 4)
        ops = []
        for _ in range(k):
            r = rng.random()
            if r < 0.6:
                ops.append(rng.choice(singles))
            elif r < 0.75:
                ops.append(("no",))
            else:
                m = tuple(rng.choice([x for x in singles if x[0] != "no"]) for _ in range(rng.randint(2, 3)))
                ops.append(("multi", m))
                ctx.count("multi_operands")
        if rng.random() < 0.3:
            # every operand carries its own, equal but distinct, source object
            objs = [O.build_origin(sp, src=O.fresh_source) for sp in ops]
            ctx.count("equal_but_distinct_sources")
        else:
            objs = [O.build_origin(sp) if sp[0] == "multi" else built[sp] for sp in ops]
        d = {"operands": ops}
        nonempty = sum(len(ref_members(s)) for s in ops)
        if nonempty >= 2:
            ctx.fp(("tuple", tuple(ops)))
        if case < 2 and ctx.shard == 0:
            ctx.sample({"operands": ops})
        # merge_origins
        ctx.evaluations += 1
        m = merge_origins(*objs)
        rm = ref_merge(ops)
        if rm[0] == "same":
            compare_result(ctx, m, ("same", objs[0]), None, d, "merge")
        elif rm[0] == "no":
            compare_result(ctx, m, ("no",), None, d, "merge")
        elif len(rm[1]) == 1:
            if O.canon_real(m) != O.canon_spec(rm[1][0]):
                ctx.violation("merge", "merge with one non-empty operand must return it", d)
        else:
            compare_result(ctx, m, ("multi", tuple(rm[1])), None, d, "merge")
        # concat_origins = left fold of +
        ctx.evaluations += 1
        c = concat_origins(*objs)
        acc = ops[0]
        for s in ops[1:]:
            acc = ref_add(acc, s)
        if len(ops) == 1:
            compare_result(ctx, c, ("same", objs[0]), None, d, "concat")
        else:
            compare_result(ctx, c, acc, None, dict(d, fold=acc), "concat")
        # binary + on the first two
        if len(ops) >= 2:
            do_pair(ops[0], ops[1], objs[0], objs[1])
    # ---- very many operands: concat / merge are promised for any number of them ----
    if ctx.only_case is None:
        t0 = O.TEXTS[0]
        n_ops = 1500
        # touching one-character code ranges of one source -> one hull; alternating sources -> one flat multi-origin
        chain = [("code", 0, i % (len(t0) - 1), i % (len(t0) - 1) + 1) for i in range(n_ops)]
        hullchain = [("code", 0, min(i, len(t0)), min(i + 1, len(t0))) for i in range(len(t0))] * 1
        for name, ops in (("hull", hullchain * 40), ("multi", [("code", i % 2, 1, 2 + (i % 3)) if i % 3 else ("xml", i % 3, "/a") for i in range(n_ops)])):
            objs = [O.build_origin(sp) for sp in ops]
            ctx.evaluations += 1
            ctx.count("concat_of_many_operands")
            try:
                c = concat_origins(*objs)
                m = merge_origins(*objs)
            except RecursionError as e:
                ctx.violation("concat", f"concat_origins / merge_origins of {len(objs)} operands raised RecursionError", {"operands": len(objs), "kind": name, "error": str(e)[:80]})
                continue
            acc = ops[0]
            for sp in ops[1:]:
                acc = ref_add(acc, sp)
            compare_result(ctx, c, acc, None, {"operands": f"{len(ops)} operands ({name})"}, "concat")
            if type(m).__name__ != "MultiOrigin" or len(m.origins) != len(objs) or any(x is not y for x, y in zip(m.origins, objs)):
                ctx.violation("merge", "merge_origins of many operands does not list the operand objects in order", {"operands": len(objs), "kind": name})
    # ---- a file-backed text source whose file appears later: get_raw is the slice once the source has its text ----
    if ctx.only_case is None:
        import os
        import tempfile
        from pathlib import Path

        from pyoak.origin import CodePoint, CodeRange, TextFileSource

        late = Path(tempfile.gettempdir()) / f"verif_pyoak_late_{os.getpid()}_{ctx.shard}.sql"
        if late.exists():
            late.unlink()
        try:
            src = TextFileSource(late)
            text = "select late from source\n"
            a = CodeOrigin(src, CodeRange(CodePoint(*O.point_for(text, 2)), CodePoint(*O.point_for(text, 6))))
            b = CodeOrigin(src, CodeRange(CodePoint(*O.point_for(text, 6)), CodePoint(*O.point_for(text, 11))))
            before = (a.get_raw(), (a + b).get_raw())
            late.write_text(text)
            ctx.evaluations += 1
            ctx.count("get_raw_after_file_appeared")
            after = (a.get_raw(), (a + b).get_raw(), src.get_raw())
            if before != (None, None) or after != (text[2:6], text[2:11], text):
                ctx.violation("get_raw", "get_raw of code origins over a text file source is not the exact slice once the file exists", {"before_file_existed": before, "after": after, "expected": (text[2:6], text[2:11])})
        finally:
            if late.exists():
                late.unlink()
    try:
        nothing = merge_origins()
    except Exception as e:  # noqa: BLE001
        nothing = f"{type(e).__name__}: {e}"
    if nothing is not NO_ORIGIN:
        ctx.violation("merge", "merge_origins() of nothing must be NoOrigin", {"got": repr(nothing)[:100]})
    for ops_ in ((NO_ORIGIN,), (NO_ORIGIN, NO_ORIGIN), (NO_ORIGIN, NO_ORIGIN, NO_ORIGIN)):
        ctx.evaluations += 1
        try:
            got_ = (merge_origins(*ops_), concat_origins(*ops_))
        except Exception as e:  # noqa: BLE001
            got_ = f"{type(e).__name__}: {e}"
        if got_ != (NO_ORIGIN, NO_ORIGIN) or got_[0] is not NO_ORIGIN:
            ctx.violation("merge", "merging / concatenating nothing but NoOrigin must give NoOrigin", {"operands": len(ops_), "got": repr(got_)[:100]})
    ctx.extra.pop("_fqn", None)


def run_shard(ctx):
    if ctx.shard == 0 and ctx.only_case is None:
        grid_checks(ctx)
    origin_checks(ctx)
