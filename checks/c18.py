"""C18 — legacy parent-aware trees stay structurally consistent through any history.

INV over histories: random histories of the public legacy operations over a handle
table of every node ever created; admissibility of each call is decided
structurally by the harness *before* the call (no object at two positions, no
cycle, ids free); after every successful operation the invariants I1-I5
(vlib.legacy_forest) are evaluated over the whole live forest.
"""
from __future__ import annotations

import signal
import sys
import traceback

from vlib import origins as O
from vlib.legacy import build_legacy, struct_children, struct_subtree
from vlib.legacy_forest import Forest, desc
from vlib.legacy_universe import legacy_universe
from vlib.spec import S

LEVEL = "exploration"
RULE = (
    "histories of 20-50 successful legacy operations: construction over existing free nodes (attached roots, detached "
    "nodes, whole subtrees), attach, detach, detach_self, replace (property / optional child / tuple / list changes, new "
    "children fresh or re-used), replace_with a node or None, duplicate (attached and detached clone), transform visitors "
    "and ASTTransformer.execute with generated rule sets; receivers chosen among attached roots, attached subtree nodes, "
    "detached and stale (already replaced) nodes and content-identical twins; a minority of histories deliberately re-uses "
    "stale predecessors as arguments (id aliasing); invariants I1-I5 after every operation; non-trivial = history with a "
    "replace below depth 2, a removal from the middle of a sequence or an operation on a stale receiver; distinct = "
    "distinct operation-kind sequences"
)
ASSUMPTIONS = [
    "admissible = the structure the call would produce contains every node object at most once, has no cycle, and every node to be (re-)attached has a free id",
    "operations that raise (documented or not) end the history without verdict and are counted; rejected operations are C19's subject",
]
MUST_SEE = ["stale_twin_replacements", "cross_tree_ancestor_queries", "explicit_ids", "replace_by_equal_value_of_other_type", "replace_depth_ge2", "remove_middle_of_sequence", "op_on_stale", "twins", "ops_ok", "replace_with_node", "replace_with_none", "transform_visitor", "transformer_execute", "attach_detached_subtree", "duplicate", "checks_deep", "twin_sequences", "replacement_is_detached_clone_of_attached_node"]
CONFIG = {
    "quick": {"shards": 16, "histories": 100, "ops": 30, "watchdog_s": 600},
    "thorough": {"shards": 32, "histories": 400, "ops": 50, "watchdog_s": 3400},
}


class OpTimeout(Exception):
    pass


def _alarm(signum, frame):
    raise OpTimeout()


class Runner:
    def __init__(self, ctx, U, rng, alias_mode: bool):
        self.ctx, self.U, self.rng = ctx, U, rng
        self.F = Forest(U)
        self.log: list = []
        self.counter = 0
        self.alias_mode = alias_mode
        self.stale: set[int] = set()  # ids (python id) of receivers already replaced away
        self.P = U.P

    # ------------------------------------------------------------------ fresh material
    def fresh_spec(self, types=None, depth=2):
        rng, P = self.rng, self.P
        self.counter += 1
        r = rng.random()
        leafs = [f"{P}Leaf", f"{P}Leaf2", f"{P}Name"]
        if depth <= 0 or r < 0.45:
            c = rng.choice(leafs)
            v = self.counter if rng.random() < 0.7 else rng.choice([1, 2])  # small values create twins
            return S(c, {"v": v, "s": rng.choice(["", "a"])}, {}, rng.choice([("no",), ("no",), ("code", 0, 1, 3)]))
        c = rng.choice([f"{P}Un", f"{P}Bin", f"{P}List", f"{P}Lst", f"{P}Call"])
        kids = {}
        for f in self.U.child_fields(c):
            if f.shape == "one":
                kids[f.name] = self.fresh_spec(depth=depth - 1)
            elif f.shape == "opt":
                if rng.random() < 0.5:
                    kids[f.name] = self.fresh_spec(depth=0) if f.types == (f"{P}Leaf",) else self.fresh_spec(depth=depth - 1)
                    if f.types == (f"{P}Leaf",):
                        kids[f.name].cls = f"{P}Leaf"
            else:
                kids[f.name] = tuple(self.fresh_spec(depth=depth - 1) for _ in range(rng.choice([0, 1, 2, 3])))
        return S(c, {}, kids, ("no",))

    def fresh(self, depth=2, leaf_only=False):
        n = build_legacy(self.U, self.fresh_spec(depth=0 if leaf_only else depth))
        self.F.add(n)
        return n

    # ------------------------------------------------------------------ helpers
    def pick(self, pred=None, prefer_stale=False):
        hs = [n for n in self.F.handles if pred is None or pred(n)]
        if not hs:
            return None
        if prefer_stale:
            st = [n for n in hs if id(n) in self.stale]
            if st and self.rng.random() < 0.5:
                return self.rng.choice(st)
        return self.rng.choice(hs)

    def free_disjoint(self, exclude_objs: set[int], k: int, types=None):
        """up to k free nodes (attached roots / attachable detached nodes) with pairwise disjoint
        structural subtrees, disjoint from exclude_objs"""
        F, rng = self.F, self.rng
        cands = [n for n in F.handles if (n.detached or n.parent is None)]
        rng.shuffle(cands)
        out = []
        used = set(exclude_objs)
        taken_ids: set[str] = set()
        for n in cands:
            if len(out) >= k:
                break
            if types is not None and not isinstance(n, types):
                continue
            if id(n) in self.stale and not self.alias_mode:
                continue
            objs = F.objs_of(n)
            if objs & used:
                continue
            if n.detached:
                if not F.attach_ok(n, extra_taken=taken_ids):
                    continue
            ids_here = {x.id for x in struct_subtree(self.U, n)}
            if ids_here & taken_ids:
                continue
            taken_ids |= ids_here
            used |= objs
            out.append(n)
        return out

    def depth_of(self, n):
        d = 0
        p = n.parent
        while p is not None and d < 1000:
            d += 1
            p = p.parent
        return d

    # ------------------------------------------------------------------ operations; each returns kind or None (not applicable)
    def op_construct(self):
        rng, U, P = self.rng, self.U, self.P
        cls = rng.choice([f"{P}Un", f"{P}Bin", f"{P}List", f"{P}Lst", f"{P}Call"] + [c for c in (f"{P}Paren", f"{P}Paren", f"{P}SeqFirst", f"{P}RtFirst", f"{P}Kw", f"{P}Ann", f"{P}Ann", f"{P}Block", f"{P}Wrap", f"{P}Inner", f"{P}Seq", f"{P}IterBlock", f"{P}IterBlock", f"{P}OptSeq", f"{P}OptSeq") if c in U.cls])
        kw = {}
        used: set[int] = set()
        for f in U.child_fields(cls):
            types = tuple(U.cls[t] for t in f.types)
            if f.shape == "one":
                c = self.free_disjoint(used, 1, types)
                c = c[0] if c and rng.random() < 0.7 else self.fresh()
                if id(c) in used:
                    return None
                kw[f.name] = c
                used |= self.F.objs_of(c)
            elif f.shape == "opt":
                if rng.random() < 0.5:
                    c = self.free_disjoint(used, 1, types)
                    if c:
                        kw[f.name] = c[0]
                        used |= self.F.objs_of(c[0])
            else:
                cs = self.free_disjoint(used, rng.choice([0, 1, 2, 3]), types)
                if rng.random() < 0.4:
                    cs.append(self.fresh(leaf_only=True))
                for c in cs:
                    used |= self.F.objs_of(c)
                kw[f.name] = list(cs) if f.shape == "list" else tuple(cs)
        # ids inside the new structure must be pairwise distinct unless this is an aliasing history
        allc = [x for v in kw.values() for c in (v if isinstance(v, (list, tuple)) else [v]) if c is not None for x in struct_subtree(U, c)]
        if len({x.id for x in allc}) < len({id(x) for x in allc}) and not self.alias_mode:
            return None
        if any(c.detached for v in kw.values() for c in (v if isinstance(v, (list, tuple)) else [v]) if c is not None):
            self.ctx.count("attach_detached_subtree")
        self.log.append(("construct", cls, {k: [desc(c) for c in (v if isinstance(v, (list, tuple)) else [v]) if c is not None] for k, v in kw.items()}))
        if rng.random() < 0.12:
            # an id chosen by the caller (any string, the empty one included) instead of the computed one
            from pyoak.legacy.node import AwareASTNode

            eid = rng.choice(["", "0", " ", "node-1", "None", "x" * 70])
            if AwareASTNode.get_any(eid) is None and not any(h.id == eid for h in self.F.handles):
                kw["id"] = eid
                self.ctx.count("explicit_ids")
        n = U.cls[cls](origin=O.build_origin(("no",)), **kw)
        self.F.add(n)
        return "construct"

    def op_twin_sequence(self):
        """a sequence holding content-identical twins (equal by dataclass ==, different ids) with other nodes between them"""
        rng, U, P = self.rng, self.U, self.P
        cls = rng.choice([f"{P}List", f"{P}Lst", f"{P}Call"])
        f = rng.choice([f for f in U.child_fields(cls) if f.shape in ("tuple", "list")])
        self.counter += 1
        v = rng.choice([1, 2, self.counter])
        if rng.random() < 0.35:
            # twin *containers* (equal by ==): receivers for replace whose position must survive a rollback
            mk = lambda: U.cls[f"{P}List"](items=(), label=f"t{v}", origin=O.build_origin(("no",)))  # noqa: E731
        else:
            mk = lambda: U.cls[f"{P}Leaf"](v=v, s="t", origin=O.build_origin(("no",)))  # noqa: E731
        seq = [mk(), self.fresh(leaf_only=rng.random() < 0.5), mk()]
        if rng.random() < 0.5:
            seq.insert(rng.randrange(len(seq) + 1), self.fresh(leaf_only=True))
        if rng.random() < 0.5:
            seq.append(mk())
        for x in seq:
            self.F.add(x)
        self.log.append(("twin_sequence", cls, f.name, [desc(x) for x in seq]))
        n = U.cls[cls](origin=O.build_origin(("no",)), **{f.name: (seq if f.shape == "list" else tuple(seq))})
        self.F.add(n)
        self.ctx.count("twin_sequences")
        return "twin_sequence"

    def op_attach(self):
        n = self.pick(lambda x: x.detached)
        if n is None:
            return None
        if id(n) in self.stale and not self.alias_mode:
            return None
        # its attached-root descendants are re-parented, its detached ones re-attached
        if not self.F.attach_ok(n):
            return None
        # re-parenting attached roots below n must not steal nodes that sit in another attached tree
        self.log.append(("attach", desc(n)))
        if len(struct_subtree(self.U, n)) > 1:
            self.ctx.count("attach_detached_subtree")
        n.attach()
        return "attach"

    def op_detach(self):
        n = self.pick(prefer_stale=True)
        if n is None:
            return None
        self.log.append(("detach", desc(n), "stale" if id(n) in self.stale else ""))
        if id(n) in self.stale:
            self.ctx.count("op_on_stale")
        n.detach()
        return "detach"

    def op_detach_self(self):
        n = self.pick(prefer_stale=True)
        if n is None:
            return None
        self.log.append(("detach_self", desc(n)))
        if id(n) in self.stale:
            self.ctx.count("op_on_stale")
        n.detach_self()
        return "detach_self"

    def op_replace(self):
        rng, U, P, F = self.rng, self.U, self.P, self.F
        n = self.pick(prefer_stale=True)
        if n is None:
            return None
        cn = type(n).__name__
        changes = {}
        kind = rng.choice(["prop", "prop", "child", "child", "seq"])
        tree_objs = F.tree_objs_containing(n)
        cfs = U.child_fields(cn)
        is_stale = id(n) in self.stale
        if kind == "prop" or not cfs:
            pf = [f for f in U.prop_fields(cn)]
            if not pf:
                return None
            f = rng.choice(pf)
            self.counter += 1
            changes[f.name] = self.counter if f.shape == "int" else rng.choice(["x", "y", None]) if f.shape == "ostr" else f"s{self.counter}"
            if f.shape == "int" and rng.random() < 0.3:
                # a value that is == to the present one but of another type (0 / False / 0.0, 1 / True / 1.0): other content
                cur_v = getattr(n, f.name)
                alts = [x for x in (0, False, 0.0, 1, True, 1.0) if x == cur_v and type(x) is not type(cur_v)]
                if alts:
                    changes[f.name] = rng.choice(alts)
                    self.ctx.count("replace_by_equal_value_of_other_type")
        elif kind == "child":
            f = rng.choice(cfs)
            types = tuple(U.cls[t] for t in f.types)
            if f.shape in ("one", "opt"):
                if f.shape == "opt" and rng.random() < 0.35:
                    changes[f.name] = None
                else:
                    c = self.free_disjoint(tree_objs, 1, types) if rng.random() < 0.5 else []
                    c = c[0] if c else self.fresh(leaf_only=(types == (U.cls[f"{P}Leaf"],)))
                    if not isinstance(c, types):
                        c = build_legacy(U, S(f"{P}Leaf", {"v": self.counter + 1000}))
                        F.add(c)
                    changes[f.name] = c
            else:
                kind = "seq"
        if kind == "seq":
            sf = [f for f in cfs if f.shape in ("tuple", "list")]
            if not sf:
                return None
            f = rng.choice(sf)
            cur = list(getattr(n, f.name))
            how = rng.choice(["drop", "drop_middle", "append", "permute", "replace_elem"])
            if how == "drop" and cur:
                del cur[rng.randrange(len(cur))]
            elif how == "drop_middle" and len(cur) >= 3:
                del cur[rng.randrange(1, len(cur) - 1)]
                self.ctx.count("remove_middle_of_sequence")
            elif how == "append":
                extra = self.free_disjoint(tree_objs, 1, tuple(U.cls[t] for t in f.types)) if rng.random() < 0.5 else []
                cur.append(extra[0] if extra else self.fresh(leaf_only=rng.random() < 0.6))
            elif how == "permute" and len(cur) >= 2:
                rng.shuffle(cur)
            elif how == "replace_elem" and cur:
                cur[rng.randrange(len(cur))] = self.fresh(leaf_only=True)
            else:
                return None
            changes[f.name] = cur if f.shape == "list" else tuple(cur)
        # a stale / detached receiver's structural children may meanwhile belong to other trees: the result
        # is built detached and re-uses them without attaching, which is fine; but for an attached receiver
        # every retained child must be its own
        new_nodes = [c for v in changes.values() for c in (v if isinstance(v, (list, tuple)) else [v]) if c is not None and hasattr(c, "detached")]
        retained = [c for fname, _, c in struct_children(U, n) if fname not in changes]
        res_objs: list[int] = []
        for c in new_nodes + retained:
            res_objs += [id(x) for x in struct_subtree(U, c)]
        if len(res_objs) != len(set(res_objs)):
            return None
        if not n.detached:
            for c in new_nodes:
                if c.detached and not F.attach_ok(c):
                    return None
                if not c.detached and c.parent is not None and c.parent is not n:
                    return None
                if id(c) in tree_objs and c.parent is not n:
                    return None
        res_ids = [x.id for c in new_nodes + retained for x in struct_subtree(U, c)] + [n.id]
        if len(res_ids) != len(set(res_ids)) and not self.alias_mode:
            return None
        if is_stale:
            self.ctx.count("op_on_stale")
        if not n.detached and self.depth_of(n) >= 2:
            self.ctx.count("replace_depth_ge2")
        self.log.append(("replace", desc(n), sorted(changes), "stale" if is_stale else ""))
        ret = n.replace(**changes)
        F.add(ret)
        self.stale.add(id(n))
        # light functional postconditions
        for k, v in changes.items():
            got = getattr(ret, k)
            if isinstance(v, (list, tuple)):
                if len(got) != len(v) or any(a is not b for a, b in zip(got, v)):
                    return ("post", "replace result does not carry the changed sequence")
            elif hasattr(v, "detached") or v is None:
                if got is not v:
                    return ("post", "replace result does not carry the changed child")
            elif got != v:
                return ("post", "replace result does not carry the changed property")
        return "replace"

    def op_replace_with(self):
        rng, U, P, F = self.rng, self.U, self.P, self.F
        n = self.pick(lambda x: id(x) not in self.stale or self.alias_mode)
        if rng.random() < 0.4:
            # prefer elements of sequences (index shifting)
            n = self.pick(lambda x: not x.detached and x.parent_index is not None) or n
        if n is None:
            return None
        p = n.parent
        tree_objs = F.tree_objs_containing(n)
        freed = {x.id for x in struct_subtree(U, n) if not x.detached}
        use_none = rng.random() < 0.3
        if use_none:
            if p is not None:
                f = next(f for f in U.child_fields(type(p).__name__) if f.name == n.parent_field.name)
                if f.shape == "one":
                    return None
                if n.parent_index is not None and 0 < n.parent_index < len(getattr(p, f.name)) - 1:
                    self.ctx.count("remove_middle_of_sequence")
            self.log.append(("replace_with", desc(n), None))
            n.replace_with(None)
            self.ctx.count("replace_with_none")
            if p is not None:
                v = getattr(p, f.name)
                if (isinstance(v, (list, tuple)) and any(x is n for x in v)) or v is n:
                    return ("post", "replace_with(None) left the node in its parent")
            return "replace_with_none"
        types = None
        if p is not None:
            f = next(f for f in U.child_fields(type(p).__name__) if f.name == n.parent_field.name)
            types = tuple(U.cls[t] for t in f.types)
        cand = self.free_disjoint(tree_objs, 1, types) if rng.random() < 0.5 else []
        new = cand[0] if cand else self.fresh(leaf_only=(types == (U.cls[f"{P}Leaf"],)))
        if rng.random() < 0.25:
            # a detached clone (same id!) of a leaf that stays attached somewhere outside n's tree
            leaves = [h for h in F.handles if not h.detached and not struct_children(U, h) and id(h) not in tree_objs and (types is None or isinstance(h, types))]
            if leaves:
                twin_of = rng.choice(leaves)
                new = twin_of.duplicate(as_detached_clone=True)
                F.add(new)
                self.ctx.count("replacement_is_detached_clone_of_attached_node")
        if types is not None and not isinstance(new, types):
            return None
        if new is n:
            return None
        # new takes n's id; ids of n's attached subtree become free first
        from pyoak.legacy.node import AwareASTNode

        def ok_after_free():
            seen = set()
            for x in struct_subtree(U, new):
                xid = n.id if x is new else x.id
                if xid in seen:
                    return False
                seen.add(xid)
                holder = AwareASTNode.get_any(xid)
                if x.detached or x is new:
                    if holder is not None and holder is not x and xid not in freed:
                        return False
                elif x is not new and x.parent is not None and x.parent is not new and not any(x is c for _, _, c in struct_children(U, x.parent)):
                    return False
            return True

        if not ok_after_free():
            return None
        if n.detached and AwareASTNode.get_any(n.id) is not None:
            return None
        if new.id in freed or any(x.id in freed for x in struct_subtree(U, new)[1:]):
            if not self.alias_mode:
                return None
        self.log.append(("replace_with", desc(n), desc(new)))
        n.replace_with(new)
        self.ctx.count("replace_with_node")
        self.stale.add(id(n))
        if p is not None:
            v = getattr(p, f.name)
            if not ((isinstance(v, (list, tuple)) and any(x is new for x in v)) or v is new):
                return ("post", "after replace_with(new) the position does not hold new")
        return "replace_with"

    def op_duplicate(self):
        n = self.pick()
        if n is None:
            return None
        clone = self.rng.random() < 0.3
        if not clone:
            # duplicating attaches copies: structural children must be consistent (no object twice)
            objs = [id(x) for x in struct_subtree(self.U, n)]
            if len(objs) != len(set(objs)):
                return None
        self.log.append(("duplicate", desc(n), "detached_clone" if clone else ""))
        d = n.duplicate(as_detached_clone=clone)
        self.F.add(d)
        self.ctx.count("duplicate")
        if any(x is y for x in struct_subtree(self.U, d) for y in struct_subtree(self.U, n)):
            return ("post", "duplicate shares an object with the original")
        # a detached original may carry an outdated cached content_id (only attached nodes are
        # covered by the statement): compare with an independent rebuild of its current structure
        if type(d) is not type(n) or d.content_id != self.F.rebuild_cids(n)[id(n)]:
            def dump(x):
                return (type(x).__name__, x.content_id[:8], {f.name: getattr(x, f.name) for f in self.U.prop_fields(type(x).__name__)}, [(fn, ix, dump(c)) for fn, ix, c in struct_children(self.U, x)])
            rb = self.F.rebuild_cids(n)[id(n)][:8]
            return ("post", f"duplicate is not content-equal to the original: orig={dump(n)} rebuilt_orig_cid={rb} dup={dump(d)}")
        return "duplicate"

    def op_transform_visitor(self):
        from pyoak.legacy.node import ASTTransformVisitor

        rng, U, P, F = self.rng, self.U, self.P, self.F
        n = self.pick(lambda x: not x.detached)
        if n is None:
            return None
        runner = self
        action = rng.choice(["rewrite", "rewrite", "fresh", "remove", "noop"])
        target = rng.choice([f"{P}Leaf", f"{P}Leaf2", f"{P}Name"])
        sub = struct_subtree(U, n)
        if action == "remove":
            # every occurrence of the target class below n must sit in an optional / sequence field
            for x in sub:
                for fname, idx, c in struct_children(U, x):
                    if type(c).__name__ == target or (target == f"{P}Leaf" and isinstance(c, U.cls[f"{P}Leaf"])):
                        f = next(f for f in U.child_fields(type(x).__name__) if f.name == fname)
                        if f.shape == "one":
                            return None
            if isinstance(n, U.cls[target]):
                return None
        if action == "fresh":
            # a fresh node replaces the target: it must fit the parent's field
            for x in sub:
                for fname, idx, c in struct_children(U, x):
                    if isinstance(c, U.cls[target]):
                        f = next(f for f in U.child_fields(type(x).__name__) if f.name == fname)
                        if not issubclass(U.cls[f"{P}Leaf"], tuple(U.cls[t] for t in f.types)):
                            return None
            if isinstance(n, U.cls[target]) and n.parent is not None:
                return None

        def rule(self_, node):
            runner.counter += 1
            if action == "rewrite":
                return node.replace(v=runner.counter + 5000)
            if action == "fresh":
                return U.cls[f"{P}Leaf"](v=runner.counter + 7000, origin=O.build_origin(("no",)))
            if action == "remove":
                return None
            return self_.generic_visit(node)

        V = type("LV", (ASTTransformVisitor,), {f"visit_{target}": rule})
        self.log.append(("transform_visitor", desc(n), action, target))
        res = V().transform(n)
        if res is not None:
            F.add(res)
        self.ctx.count("transform_visitor")
        self.stale.add(id(n))
        return "transform_visitor"

    def op_transformer(self):
        from pyoak.legacy.node import ASTTransformer

        rng, U, P, F = self.rng, self.U, self.P, self.F
        n = self.pick(lambda x: not x.detached and x.parent is None)
        if n is None:
            return None
        runner = self
        action = rng.choice(["rewrite", "fresh", "remove"])
        target = U.cls[rng.choice([f"{P}Leaf", f"{P}Leaf2"])]
        for x in struct_subtree(U, n):
            for fname, idx, c in struct_children(U, x):
                if type(c) is target:
                    f = next(f for f in U.child_fields(type(x).__name__) if f.name == fname)
                    if action == "remove" and f.shape == "one":
                        return None
                    if action == "fresh" and not issubclass(U.cls[f"{P}Leaf"], tuple(U.cls[t] for t in f.types)):
                        return None
        if type(n) is target:
            return None

        class T(ASTTransformer):
            def transform(self, node):
                if type(node) is not target:
                    return node
                runner.counter += 1
                if action == "rewrite":
                    return node.replace(v=runner.counter + 9000)
                if action == "fresh":
                    return U.cls[f"{P}Leaf"](v=runner.counter + 11000, origin=O.build_origin(("no",)))
                return None

        self.log.append(("transformer_execute", desc(n), action, target.__name__))
        before = {id(x) for x in struct_subtree(U, n)}
        T().execute(n)
        for x in struct_subtree(U, n):
            F.add(x)
        self.ctx.count("transformer_execute")
        for h in list(F.handles):
            if id(h) in before and h.detached:
                self.stale.add(id(h))
        return "transformer_execute"

    def op_stale_twin_replacement(self):
        """a detached node whose cached content went stale (a grandchild was changed while it was out) replaces a node that
        is content-equal to what it was before: holder and ancestors must come out with the content they now have"""
        rng, U, P = self.rng, self.U, self.P
        NO = O.build_origin(("no",))
        Leaf, Un, Lst = U.cls[f"{P}Leaf"], U.cls[f"{P}Un"], U.cls[f"{P}List"]
        self.counter = getattr(self, "counter", 0) + 1
        k = 880000 + self.counter * 10 + rng.randrange(5)

        def chain(v):
            return Un(child=Un(child=Leaf(v=v, origin=NO), origin=NO), origin=NO)

        equal_occupant = rng.random() < 0.7
        occupant = chain(k if equal_occupant else k + 3)
        root = Lst(items=(chain(k + 5), occupant), origin=NO)
        top = Un(child=root, origin=NO) if rng.random() < 0.5 else None
        holder = chain(k)
        mid, lf = holder.child, holder.child.child
        self.F.add(root, top, holder)
        holder.detach_self()
        changed = rng.random() < 0.7
        if changed:
            new_leaf = lf.replace(v=k + 1)
            self.F.add(new_leaf)
        self.log.append(("stale_twin_replacement", {"occupant_equal_to_holder_before_change": equal_occupant, "changed_below_holder": changed}))
        occupant.replace_with(holder)
        self.F.add(holder)
        self.ctx.count("stale_twin_replacements")
        return "stale_twin_replacement"

    # ------------------------------------------------------------------ driver
    def run(self, nops):
        ctx, rng = self.ctx, self.rng
        ops = [
            (self.op_construct, 5), (self.op_twin_sequence, 2), (self.op_attach, 2), (self.op_detach, 2), (self.op_detach_self, 2), (self.op_replace, 7),
            (self.op_replace_with, 4), (self.op_duplicate, 2), (self.op_transform_visitor, 2), (self.op_transformer, 1), (self.op_stale_twin_replacement, 1),
        ]
        weights = [w for _, w in ops]
        for _ in range(4):
            self.fresh()
        kinds = []
        tries = 0
        while len(kinds) < nops and tries < nops * 6:
            tries += 1
            op = rng.choices([o for o, _ in ops], weights)[0]
            signal.setitimer(signal.ITIMER_REAL, 20.0)
            try:
                r = op()
            except OpTimeout:
                ctx.count("history_aborted_timeout")
                self.ctx.extra.setdefault("aborted", []).append({"reason": "timeout", "log": self.log[-6:]})
                return kinds
            except Exception as e:  # noqa: BLE001
                ctx.count(f"history_aborted_{type(e).__name__}")
                ab = self.ctx.extra.setdefault("aborted", [])
                if len(ab) < 12:
                    ab.append({"reason": f"{type(e).__name__}: {e}"[:200], "op": op.__name__, "log": self.log[-5:], "tb": traceback.format_exc()[-500:]})
                return kinds
            finally:
                signal.setitimer(signal.ITIMER_REAL, 0)
            if r is None:
                continue
            ctx.evaluations += 1
            ctx.count("ops_ok")
            if isinstance(r, tuple):
                ctx.violation("postcondition", r[1], {"log": self.log[-12:]})
                return kinds
            kinds.append(r)
            if self.F.id_aliases():
                ctx.count("states_with_id_aliases")
            deep = len(self.F.handles) <= 120
            if deep:
                ctx.count("checks_deep")
            signal.setitimer(signal.ITIMER_REAL, 30.0)
            try:
                v = self.F.check(deep=deep)
            except OpTimeout:
                ctx.count("history_aborted_timeout")
                self.ctx.extra.setdefault("aborted", []).append({"reason": "timeout in check", "log": self.log[-6:]})
                return kinds
            finally:
                signal.setitimer(signal.ITIMER_REAL, 0)
            if v is not None:
                mech, what, detail = v
                # K-C18-2 classifier: some attached tree contains two distinct objects with one id
                twice = False
                for r_ in self.F.attached_roots():
                    ids = {}
                    for x in struct_subtree(self.U, r_):
                        if x.id in ids and ids[x.id] is not x:
                            twice = True
                        ids[x.id] = x
                if twice:
                    mech = "two-objects-one-id"
                detail["log"] = self.log[-14:]
                detail["alias_mode"] = self.alias_mode
                ctx.violation(mech, what, detail)
                return kinds
        ctx.count("cross_tree_ancestor_queries", self.F.cross_tree_ancestor_queries)
        twins = {}
        for n in self.F.handles:
            twins.setdefault((type(n).__name__, n.content_id), []).append(n)
        if any(len(v) > 1 for v in twins.values()):
            ctx.count("twins")
        return kinds


def run_shard(ctx):
    sys.setrecursionlimit(20000)
    import warnings

    warnings.simplefilter("ignore", DeprecationWarning)
    from pyoak.legacy.node import AwareASTNode

    U = legacy_universe(runtime_only=(ctx.shard % 2 == 0))
    signal.signal(signal.SIGALRM, _alarm)
    for case in ctx.cases(ctx.params["histories"]):
        rng = ctx.rng(case)
        for v in list(AwareASTNode._nodes.values()):
            AwareASTNode._nodes.pop(v.id, None)
        r = Runner(ctx, U, rng, alias_mode=(case % 6 == 5))
        kinds = r.run(ctx.params["ops"])
        if kinds:
            ctx.fp(tuple(kinds))
        if case < 1 and ctx.shard == 0:
            ctx.sample({"history": r.log[:10]})
        ctx.count("histories")
