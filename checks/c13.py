"""C13 — runtime type checking accepts exactly the well-typed constructions.

REF x configuration switch: for every (accepted annotation AST, value) pair a
single-field class is constructed with config.RUNTIME_TYPE_CHECK on and off; the
outcome is compared with a reference conformance predicate on the AST. Multi-field
classes mix conforming and non-conforming fields (incl. init=False fields with
ill-typed defaults) and must name exactly the bad fields.
"""
from __future__ import annotations

import sys
import traceback

from vlib import anngrammar as AG
from vlib.universe import Universe

LEVEL = "exploration"
RULE = (
    "inputs = (annotation, value): every depth-1 annotation that C11's reference accepts (child or property; NewTypes, "
    "both union spellings, fixed / variadic / empty / bare tuples, frozenset, Sequence, Mapping, Literal, Enum, Any) plus "
    "sampled depth-2 ones x a pool of ~90 values (both booleans, 0/1/2, floats, strings, None, enum members, nodes of every "
    "class, tuples / lists / frozensets / dicts of these with length 0-3), each pair visited in two different orders; "
    "multi-field classes with 3-5 fields mixing conforming and non-conforming values and init=False fields with ill-typed "
    "defaults; every construction with the switch on and off; non-trivial = pair whose reference verdict is defined; "
    "distinct = distinct (annotation source, value repr)"
)
ASSUMPTIONS = [
    "don't-care pairs (bool against float/complex, Any, Literal containing 1 vs True/1.0, str against Sequence) give no verdict",
    "with the switch off, non-node values in child fields are outside the statement (the digest needs child nodes); property fields accept any value",
]
MUST_SEE = ["ill_typed_values_whose_repr_raises", "unions_of_parametrised_containers", "subclasses_defined_after_first_check", "fieldless_marker_classes", "field_names_resembling_builtin_ones", "ill_typed_origin", "mixin_inherited_fields", "failed_operations_with_checks_on", "same_annotation_text_other_type", "false_vs_bool", "bool_vs_int", "bool_vs_int_union", "bool_in_int_tuple", "fixed_tuple_too_long", "fixed_tuple_too_short", "multi_two_bad", "noninit_bad_default", "switch_off_same_node", "nonconforming", "conforming", "noncompare_fields_checked", "ill_typed_value_equal_to_default", "parent_used_before_subclass"]
CONFIG = {
    "quick": {"shards": 16, "d2_sample": 150, "multi": 300, "watchdog_s": 600},
    "thorough": {"shards": 32, "d2_sample": 400, "multi": 600, "watchdog_s": 3400},
}


import enum as _enum_mod


class _IntE(_enum_mod.IntEnum):
    SEVEN = 7


class _Port(int):
    pass


class _Tagged(str):
    pass


def value_pool(ns, P):
    C = ns[f"{P}Color"]
    n0, n1, fz, l0 = ns[f"{P}N0"](v=1), ns[f"{P}N1"](v=2, w="w"), ns[f"{P}Fz"](v=3), ns[f"{P}L0"](v=4)
    coll0, coll1 = ns[f"{P}Coll"](), ns[f"{P}Coll"](items=(ns[f"{P}N0"](v=9),))
    # values equal to literal members but built at run time (other objects than the constants in the annotation)
    built = ["".join(["alpha", "-", "beta"]), int("65536"), "".join(["alpha", "-", "bet"]), int("65537")]
    # instances of subclasses of int / str (an IntEnum member, a user's own int and str subclasses): they are ints / strs
    built += [_IntE.SEVEN, _Port(8080), _Tagged("sub"), coll0, coll1, ns[f"{P}NAbc"](v=6)]
    base = [True, False, 0, 1, 2, 1.5, "", "x", "a", None, C.RED, C.GREEN, n0, n1, fz, l0] + built
    pool = list(base)
    pool.append(())
    for b in base:
        pool.append((b,))
    for a, b in [(1, 2), (1, True), (1, "x"), ("x", "a"), (n0, n1), (n0, fz), (n1, n0), (n0, None), (None, None), (1, None), (True, False), (1.5, 1), (n0, 1), ("x", n0), (l0, l0)]:
        pool.append((a, b))
    pool += [(1, 2, 3), (n0, n1, n0), ("x", "a", 1), (n0, n0, None)]
    pool += [[], [1], ["x"], [n0], [n0, n1]]
    pool += [frozenset(), frozenset({1}), frozenset({"x"}), frozenset({True}), frozenset({1, "x"}), frozenset({n0})]
    pool += [{}, {"a": 1}, {1: "a"}, {"a": "b"}, {"a": n0}, {"a": None}]
    pool += [((1,),), ((n0,),), ((),)]
    return pool


def vrepr(v):
    r = repr(v)
    return r if len(r) < 80 else type(v).__name__ + ":" + r[:60]


def run_shard(ctx):
    sys.setrecursionlimit(20000)
    from pyoak import config
    from pyoak.error import InvalidTypes

    rng = ctx.rng("plan")
    d1 = [a for a in AG.enum_d1() if not AG.pipe_unevaluable(a) and not AG.has_fwd(a) and AG.classify(a) in ("CHILD", "PROP")]
    d2 = [a for a in AG.enum_d2() if not AG.pipe_unevaluable(a) and not AG.has_fwd(a) and AG.classify(a) in ("CHILD", "PROP")]
    mine = [a for i, a in enumerate(d1) if i % ctx.nshards == ctx.shard]
    mine2 = [a for i, a in enumerate(d2) if i % ctx.nshards == ctx.shard]
    mine += rng.sample(mine2, min(ctx.params["d2_sample"], len(mine2)))
    P = f"R{ctx.shard}_"
    U = Universe(f"verif_c13_{P}", [], prelude_extra=AG.PRELUDE.replace("{P}", P) + AG.POSTLUDE.replace("{P}", P))
    U.exec()
    ns = U.module.__dict__
    env = {"Color": ns[f"{P}Color"], "N0": ns[f"{P}N0"], "N1": ns[f"{P}N1"], "Fz": ns[f"{P}Fz"], "L0": ns[f"{P}L0"], "Coll": ns[f"{P}Coll"], "NAbc": ns[f"{P}NAbc"]}
    pool = value_pool(ns, P)
    ctx.extra["accepted_d1"] = len(d1)
    ctx.extra["pool_size"] = len(pool)

    def construct(C, kw, on):
        config.RUNTIME_TYPE_CHECK = on
        try:
            n = C(**kw)
            return ("ok", n)
        except InvalidTypes as e:
            return ("InvalidTypes", sorted(f.name for f in e.invalid_fields))
        except Exception as e:  # noqa: BLE001
            return ("other", f"{type(e).__name__}: {e}"[:200], traceback.format_exc()[-500:])
        finally:
            config.RUNTIME_TYPE_CHECK = False

    def tags(a, v, verdict):
        u = AG.unwrap_nt(a)
        if v is False and u == ("bool",):
            ctx.count("false_vs_bool")
        if isinstance(v, bool) and u == ("int",):
            ctx.count("bool_vs_int")
        if isinstance(v, bool) and u[0] in ("union", "opt") and any(x == ("int",) for x in AG.walk(u)) and not any(x == ("bool",) for x in AG.walk(u)):
            ctx.count("bool_vs_int_union")
        if u[0] == "tvar" and u[1] == ("int",) and isinstance(v, tuple) and any(isinstance(x, bool) for x in v):
            ctx.count("bool_in_int_tuple")
        if u[0] == "tfix" and isinstance(v, tuple):
            if len(v) > len(u[1]):
                ctx.count("fixed_tuple_too_long")
            if len(v) < len(u[1]):
                ctx.count("fixed_tuple_too_short")

    # ------------------------------------------------------------ operations that fail while checks are on
    src = (
        f"@dataclass(frozen=True)\nclass {P}IVLeaf(ASTNode):\n    count: int\n    label: str = 'x'\n\n"
        f"@dataclass(frozen=True)\nclass {P}IVScaled(ASTNode):\n    name: str\n    leaf: {P}IVLeaf\n    scale: InitVar[int]\n\n"
        f"    def __post_init__(self, scale):\n        super().__post_init__()\n"
    )
    exec(compile("from dataclasses import InitVar\n" + src, "<c13 iv>", "exec", dont_inherit=True), ns)
    IVLeaf, IVScaled = ns[f"{P}IVLeaf"], ns[f"{P}IVScaled"]

    def failing_operations(fr):
        """duplicate() / replace() / construction that raise with the switch on; the switch stays on and so does the validation"""
        config.RUNTIME_TYPE_CHECK = True
        try:
            leaf = IVLeaf(count=fr.randrange(1000))
            sc = IVScaled(name="s", leaf=leaf, scale=3)
            ops = [
                ("duplicate of a node with an InitVar", lambda: sc.duplicate()),
                ("replace with an unknown field", lambda: leaf.replace(nosuch=1)),
                ("replace with an ill-typed value", lambda: leaf.replace(count="x")),
                ("duplicate as_obj of a broken payload", lambda: IVLeaf.as_obj({"__type": IVLeaf.__name__, "count": []})),
                ("successful duplicate", lambda: leaf.duplicate().detach()),
            ]
            fr.shuffle(ops)
            for name, op in ops[: fr.randint(1, 4)]:
                try:
                    op()
                except Exception:  # noqa: BLE001
                    ctx.count("failed_operations_with_checks_on")
                ctx.evaluations += 1
                for bad_kw, exp in (({"count": "1"}, ["count"]), ({"count": True, "label": 5}, ["count", "label"])):
                    try:
                        n = IVLeaf(**bad_kw)
                        n.detach()
                        got = "accepted"
                    except InvalidTypes as e:
                        got = sorted(f.name for f in e.invalid_fields)
                    except Exception as e:  # noqa: BLE001
                        got = type(e).__name__
                    if got != exp:
                        ctx.violation("checks-off-after-failed-operation", f"after '{name}' (switch still on) an ill-typed construction gave {got}, expected InvalidTypes{exp}", {"after": name, "values": bad_kw})
                        return
            for x in (sc, leaf):
                x.detach()
        finally:
            config.RUNTIME_TYPE_CHECK = False

    for k in range(12):
        failing_operations(ctx.rng(("failing-ops", k)))

    # ------------------------------------------------------------ postponed annotations naming class-level types
    src = (
        f"@dataclass(frozen=True)\nclass {P}PJoin(ASTNode):\n    class Kind(enum.Enum):\n        INNER = 'inner'\n        OUTER = 'outer'\n\n"
        f"    Mode = Literal['hash', 'merge']\n    kind: Kind\n    mode: Mode = 'hash'\n    cost: float = 0\n\n"
        f"@dataclass(frozen=True)\nclass {P}PLoop(ASTNode):\n    class Kind(enum.Enum):\n        FOR = 'for'\n        WHILE = 'while'\n\n"
        f"    Mode = Literal['eager', 'lazy']\n    kind: Kind\n    mode: Mode = 'lazy'\n    body: tuple[{P}PJoin, ...] = ()\n"
    )
    import __future__

    exec(compile("from typing import Literal\n" + src, "<c13 postponed class-level names>", "exec", flags=__future__.annotations.compiler_flag, dont_inherit=True), ns)
    PJ, PL = ns[f"{P}PJoin"], ns[f"{P}PLoop"]
    j = PJ(kind=PJ.Kind.INNER)
    qs = [
        (PJ, dict(kind=PJ.Kind.INNER, mode="merge", cost=2.0), []),
        (PJ, dict(kind="inner", mode="lazy", cost="1"), ["cost", "kind", "mode"]),
        (PJ, dict(kind=PL.Kind.FOR), ["kind"]),
        (PL, dict(kind=PL.Kind.WHILE, mode="eager", body=(j,)), []),
        (PL, dict(kind=PJ.Kind.OUTER, mode="hash"), ["kind", "mode"]),
        (PL, dict(kind=PL.Kind.FOR, mode="merge", body=[j]), ["body", "mode"]),
    ]
    if ctx.shard % 2:
        qs.reverse()
    for C, kw, exp in qs + qs:
        ctx.evaluations += 1
        ctx.count("same_annotation_text_other_type")
        r = construct(C, kw, True)
        got = [] if r[0] == "ok" else r[1]
        if r[0] == "ok":
            r[1].detach()
        if got != exp:
            ctx.violation("same-text-other-type", f"{C.__name__[len(P):]} construction: invalid fields {got}, expected {exp} (two classes of one postponed-annotation module spell different class-level types with the same text)", {"class": C.__name__[len(P):], "values": {k_: vrepr(v) for k_, v in kw.items()}})
    # ------------------------------------------------------------ fields inherited from a plain dataclass mixin (either base order)
    src = (
        f"@dataclass(frozen=True)\nclass {P}PlainMix:\n    tag: int = 0\n    label: str = ''\n\n"
        f"@dataclass(frozen=True)\nclass {P}MA1(ASTNode, {P}PlainMix):\n    x: int = 0\n\n"
        f"@dataclass(frozen=True)\nclass {P}MA2({P}PlainMix, ASTNode):\n    x: int = 0\n\n"
        f"@dataclass(frozen=True)\nclass {P}MA3({P}MA1):\n    y: str = ''\n"
    )
    exec(compile(src, "<c13 mixins>", "exec", dont_inherit=True), ns)
    mq = [
        (dict(tag=1, label="a", x=2), []),
        (dict(tag="1"), ["tag"]),
        (dict(tag=True, label=5, x="s"), ["label", "tag", "x"]),
        (dict(label=None), ["label"]),
        (dict(x=1.5), ["x"]),
    ]
    for cn in (f"{P}MA1", f"{P}MA2", f"{P}MA3", f"{P}MA1"):
        for kw, exp in (mq if ctx.shard % 2 else list(reversed(mq))):
            ctx.evaluations += 1
            ctx.count("mixin_inherited_fields")
            r = construct(ns[cn], kw, True)
            got = [] if r[0] == "ok" else r[1]
            if r[0] == "ok":
                r[1].detach()
            if got != exp:
                ctx.violation("nonconforming-accepted" if exp and r[0] == "ok" else "invalid-fields-wrong", f"{cn[len(P):]}: fields inherited from a plain dataclass mixin: invalid fields {got}, expected {exp}", {"class": cn[len(P):], "source": src.replace(P, ""), "values": {k_: vrepr(v) for k_, v in kw.items()}})
    # ------------------------------------------------------------ field names that resemble the built-in ones
    names = ["content", "on", "con", "t", "d", "i", "_id", "origin_", "ids", "c", "tent"]
    src = f"@dataclass(frozen=True)\nclass {P}Names(ASTNode):\n" + "".join(f"    {nm}: int = 0\n" for nm in names) + f"    kid_id: {P}IVLeaf | None = None\n"
    exec(compile(src, "<c13 names>", "exec", dont_inherit=True), ns)
    for k in range(len(names) + 1):
        badn = sorted(rng.sample(names, 2)) if k == len(names) else [names[k]]
        kw = {nm: "ill-typed" for nm in badn}
        if k % 3 == 0:
            kw["kid_id"] = 5
            badn = sorted(badn + ["kid_id"])
        ctx.evaluations += 1
        ctx.count("field_names_resembling_builtin_ones")
        r = construct(ns[f"{P}Names"], kw, True)
        got = [] if r[0] == "ok" else r[1]
        if r[0] == "ok":
            r[1].detach()
        if got != badn:
            ctx.violation("nonconforming-accepted" if r[0] == "ok" else "invalid-fields-wrong", f"ill-typed values in fields {badn}: invalid fields {got}", {"values": {k_: vrepr(v) for k_, v in kw.items()}})
    # ------------------------------------------------------------ the built-in origin field is type checked like any other
    from pyoak.origin import NO_ORIGIN, MemoryTextSource

    for kw, exp in (
        (dict(count=1, origin="x"), ["origin"]),
        (dict(count=1, origin=None), ["origin"]),
        (dict(count=1, origin=MemoryTextSource("t", source_uri=f"c13://{P}")), ["origin"]),
        (dict(count="1", origin=5), ["count", "origin"]),
        (dict(count=1, origin=NO_ORIGIN), []),
    ):
        ctx.evaluations += 1
        ctx.count("ill_typed_origin")
        r = construct(IVLeaf, kw, True)
        got = [] if r[0] == "ok" else r[1]
        if r[0] == "ok":
            r[1].detach()
        if got != exp:
            ctx.violation("nonconforming-accepted" if r[0] == "ok" else "invalid-fields-wrong", f"origin given as {type(kw['origin']).__name__}: invalid fields {got}, expected {exp}", {"values": {k_: vrepr(v) for k_, v in kw.items()}})
    # ... also in classes without fields of their own (marker nodes: Pass, Break), where it is the only checked field
    src = f"@dataclass(frozen=True)\nclass {P}Marker(ASTNode):\n    pass\n\n\n@dataclass(frozen=True)\nclass {P}Marker2({P}Marker):\n    pass\n"
    exec(compile(src, "<c13 marker>", "exec", dont_inherit=True), ns)
    from pyoak.origin import CodeOrigin, get_code_range

    for cn in (f"{P}Marker", f"{P}Marker2"):
        for kw, exp in (
            (dict(), []),
            (dict(origin=CodeOrigin(MemoryTextSource("pass", source_uri=f"c13://{P}/m"), get_code_range(0, 1, 0, 4, 1, 4))), []),
            (dict(origin=""), ["origin"]),
            (dict(origin=()), ["origin"]),
            (dict(origin=None), ["origin"]),
            (dict(origin=NO_ORIGIN), []),
        ):
            ctx.evaluations += 1
            ctx.count("fieldless_marker_classes")
            r = construct(ns[cn], kw, True)
            got = [] if r[0] == "ok" else r[1]
            if r[0] == "ok":
                r[1].detach()
            if got != exp:
                ctx.violation("nonconforming-accepted" if r[0] == "ok" else "invalid-fields-wrong", f"{cn}({', '.join(kw)}) with origin {vrepr(kw.get('origin', 'default'))}: invalid fields {got}, expected {exp}", {"values": {k_: vrepr(v) for k_, v in kw.items()}})
    # ... classes defined after an annotation was first checked: instances of later subclasses (of a node class, of Origin)
    # conform to the annotation naming the base
    src = f"@dataclass(frozen=True)\nclass {P}LHold(ASTNode):\n    kid: {P}IVLeaf | None = None\n    kids: tuple[{P}IVLeaf, ...] = ()\n"
    exec(compile(src, "<c13 lhold>", "exec", dont_inherit=True), ns)
    first = construct(ns[f"{P}LHold"], dict(kid=IVLeaf(count=1), kids=(IVLeaf(count=2),), origin=NO_ORIGIN), True)
    src = f"@dataclass(frozen=True)\nclass {P}LateLeaf({P}IVLeaf):\n    extra: int = 0\n\n\n@dataclass(frozen=True)\nclass {P}LateOrigin(CodeOrigin):\n    pass\n"
    ns.setdefault("CodeOrigin", CodeOrigin)
    exec(compile(src, "<c13 late>", "exec", dont_inherit=True), ns)
    LateLeaf, LateOrigin = ns[f"{P}LateLeaf"], ns[f"{P}LateOrigin"]
    lo = LateOrigin(MemoryTextSource("late", source_uri=f"c13://{P}/late"), get_code_range(0, 1, 0, 2, 1, 2))
    for kw, exp in (
        (dict(kid=LateLeaf(count=1, extra=2)), []),
        (dict(kids=(IVLeaf(count=3), LateLeaf(count=4))), []),
        (dict(kid=LateLeaf(count=5), origin=lo), []),
        (dict(kid=ns[f"{P}Marker"]()), ["kid"]),
    ):
        ctx.evaluations += 1
        ctx.count("subclasses_defined_after_first_check")
        r = construct(ns[f"{P}LHold"], kw, True)
        got = [] if r[0] == "ok" else r[1]
        if r[0] == "ok":
            r[1].detach()
        if got != exp or first[0] != "ok":
            ctx.violation("conforming-rejected" if exp == [] else "invalid-fields-wrong", f"values of classes defined after the annotation was first checked: invalid fields {got}, expected {exp}", {"values": {k_: vrepr(v) for k_, v in kw.items()}})
    # ... ill-typed values whose own repr / str raise: still the documented error with exactly the bad fields
    class _BadRepr:
        def __repr__(self):
            raise LookupError("unresolved reference")

        __str__ = __repr__

    for kw, exp in ((dict(count=_BadRepr()), ["count"]), (dict(count=1, origin=_BadRepr()), ["origin"]), (dict(count=_BadRepr(), origin=_BadRepr()), ["count", "origin"])):
        ctx.evaluations += 1
        ctx.count("ill_typed_values_whose_repr_raises")
        r = construct(IVLeaf, kw, True)
        got = [] if r[0] == "ok" else r[1]
        if r[0] == "ok":
            r[1].detach()
        if got != exp:
            ctx.violation("nonconforming-accepted" if r[0] == "ok" else "invalid-fields-wrong", f"ill-typed value whose repr raises: outcome {str(got)[:150]}, expected InvalidTypes naming {exp}", {"fields": sorted(kw)})
    # ... unions of several parametrised forms of one container: a value conforms if it conforms to any member, whatever the
    # order of the members
    for k_, (ann_, good_, bad_) in enumerate((
        ("tuple[int, ...] | tuple[str, ...]", [("a", "b"), (1, 2), ()], [("a", 1), (1.5,)]),
        ("tuple[str, ...] | tuple[int, ...]", [("a", "b"), (1, 2), ()], [("a", 1), (1.5,)]),
        ("tuple[int, int] | tuple[int, int, int] | None", [(1, 2), (1, 2, 3), None], [(1,), (1, 2, 3, 4), (1, "a")]),
        ("tuple[int, int, int] | tuple[int, int] | None", [(1, 2), (1, 2, 3), None], [(1,), (1, 2, 3, 4), (1, "a")]),
        ("Sequence[float] | tuple[str, ...]", [("a",), (1.5, 2.5), ()], [("a", 1.5)]),
        ("tuple[str, ...] | Sequence[float]", [("a",), (1.5, 2.5), ()], [("a", 1.5)]),
    )):
        src = f"@dataclass(frozen=True)\nclass {P}UU{k_}(ASTNode):\n    x: {ann_} = ()\n"
        ns.setdefault("Sequence", __import__("typing").Sequence)
        exec(compile(src, f"<c13 union {k_}>", "exec", dont_inherit=True), ns)
        for v_, conf in [(g_, True) for g_ in good_] + [(b_, False) for b_ in bad_]:
            ctx.evaluations += 1
            ctx.count("unions_of_parametrised_containers")
            r = construct(ns[f"{P}UU{k_}"], dict(x=v_), True)
            if r[0] == "ok":
                r[1].detach()
            if (r[0] == "ok") != conf or (not conf and r[0] != "ok" and r[1] != ["x"]):
                ctx.violation("conforming-rejected" if conf else "nonconforming-accepted", f"{ann_} with value {v_!r}: outcome {r[0]}", {"annotation": ann_, "value": repr(v_)})
    # ------------------------------------------------------------ single-field classes
    for k, a in enumerate(mine):
        ctx.case = ("single", k)
        ann = AG.render(a, P)
        T = f"{P}S{k}"
        src = f"@dataclass(frozen=True)\nclass {T}(ASTNode):\n    x: {ann}\n"
        try:
            exec(compile(src, f"<c13 {T}>", "exec", dont_inherit=True), ns)
        except Exception as e:  # noqa: BLE001
            tb = traceback.format_exc()
            if "/mashumaro/" in tb:
                ctx.count("no_verdict_mashumaro_definition")
                continue
            ctx.violation("definition-raised", f"accepted annotation could not be defined: {type(e).__name__}: {e}", {"annotation": AG.render(a, "")})
            continue
        C = ns[T]
        role = AG.classify(a)
        order = list(range(len(pool)))
        order2 = order[:]
        rng.shuffle(order2)
        first_results = {}
        for pass_no, ordr in enumerate((order, order2)):
            for vi in ordr:
                v = pool[vi]
                verdict = AG.conforms(v, a, env)
                ctx.evaluations += 1
                detail = {"annotation": AG.render(a, ""), "value": vrepr(v), "expected_conforms": verdict, "role": role, "pass": pass_no}
                if verdict is None:
                    ctx.count("dont_care")
                    continue
                if pass_no == 0:
                    tags(a, v, verdict)
                    ctx.fp((detail["annotation"], detail["value"]))
                    ctx.count("conforming" if verdict else "nonconforming")
                    if k == 0 and vi < 2 and ctx.shard == 0:
                        ctx.sample(detail)
                r_on = construct(C, {"x": v}, True)
                if r_on[0] == "other":
                    mech = "mapping-runtime-error" if "report a bug" in r_on[1] else "construct-raised-other"
                    ctx.violation(mech, f"construction with checks on raised {r_on[1]}", dict(detail, tb=r_on[2]))
                    continue
                if verdict and r_on[0] != "ok":
                    ctx.violation("conforming-rejected", "a conforming value was rejected with InvalidTypes", dict(detail, invalid=r_on[1]))
                elif not verdict and r_on[0] == "ok":
                    ctx.violation("nonconforming-accepted", "a non-conforming value was accepted with runtime type checks on", detail)
                elif not verdict and r_on[1] != ["x"]:
                    ctx.violation("invalid-fields-wrong", "InvalidTypes.invalid_fields does not name exactly the bad field", dict(detail, invalid=r_on[1]))
                if pass_no == 0:
                    first_results[vi] = r_on[0]
                elif first_results.get(vi) != r_on[0]:
                    ctx.violation("history-dependent", "the same (annotation, value) construction gave different outcomes at different times", detail)
                # switch off
                if verdict or role == "PROP":
                    if r_on[0] == "ok":
                        n_on = r_on[1]
                        n_on.detach_self()
                    r_off = construct(C, {"x": v}, False)
                    if r_off[0] != "ok":
                        ctx.violation("switch-off-raised", f"construction with checks off failed: {r_off[1]}", detail)
                    elif r_on[0] == "ok":
                        n_off = r_off[1]
                        ctx.count("switch_off_same_node")
                        if type(n_off) is not type(n_on) or n_off.content_id != n_on.content_id or n_off.x is not n_on.x or n_off.id != n_on.id:
                            ctx.violation("switch-changes-node", "the node built with checks off differs from the one built with checks on", detail)
                        n_off.detach_self()
    # ------------------------------------------------------------ fields with defaults; parent used before subclass
    def lit(v):
        return repr(v) if isinstance(v, (bool, int, float, str, type(None), tuple)) and not (isinstance(v, tuple) and v and not all(isinstance(x, (bool, int, float, str, type(None))) for x in v)) else None

    simple = [a for a in d1 if AG.classify(a) == "PROP" and AG.unwrap_nt(a)[0] in ("int", "bool", "float", "str", "opt", "union", "tvar", "tfix", "lit")]
    for k in range(30):
        ctx.case = ("default", k)
        dr = ctx.rng(("default", k))
        a = dr.choice(simple)
        goods = [v for v in pool if AG.conforms(v, a, env) is True and lit(v) is not None]
        if not goods:
            continue
        dflt = dr.choice(goods)
        T = f"{P}D{k}"
        src = f"@dataclass(frozen=True)\nclass {T}(ASTNode):\n    x: {AG.render(a, P)} = {lit(dflt)}\n"
        try:
            exec(compile(src, f"<c13 {T}>", "exec", dont_inherit=True), ns)
        except Exception:  # noqa: BLE001
            continue
        C = ns[T]
        for v in pool:
            verdict = AG.conforms(v, a, env)
            if verdict is None:
                continue
            try:
                same_as_default = bool(v == dflt)
            except Exception:  # noqa: BLE001
                same_as_default = False
            if not same_as_default and dr.random() < 0.7:
                continue
            ctx.evaluations += 1
            if same_as_default and verdict is False:
                ctx.count("ill_typed_value_equal_to_default")
            detail = {"annotation": AG.render(a, ""), "default": repr(dflt), "value": vrepr(v), "expected_conforms": verdict}
            r = construct(C, {"x": v}, True)
            if r[0] == "ok":
                r[1].detach_self()
            if r[0] == "other":
                ctx.violation("construct-raised-other", f"construction raised {r[1]}", detail)
            elif verdict and r[0] != "ok":
                ctx.violation("conforming-rejected", "a conforming value was rejected (field with default)", detail)
            elif not verdict and r[0] == "ok":
                ctx.violation("nonconforming-accepted", "a non-conforming value was accepted (field with default)", detail)
    for k in range(20):
        ctx.case = ("inherit", k)
        hr = ctx.rng(("inherit", k))
        a1, a2, a3 = hr.choice(simple), hr.choice(simple), hr.choice(simple)
        Pn, Qn = f"{P}HP{k}", f"{P}HQ{k}"
        override = hr.random() < 0.5
        src = f"@dataclass(frozen=True)\nclass {Pn}(ASTNode):\n    a: {AG.render(a1, P)}\n\n@dataclass(frozen=True)\nclass {Qn}({Pn}):\n    b: {AG.render(a2, P)}\n" + (f"    a: {AG.render(a3, P)}\n" if override else "")
        try:
            exec(compile(src, f"<c13 {Qn}>", "exec", dont_inherit=True), ns)
        except Exception:  # noqa: BLE001
            continue
        PC, QC = ns[Pn], ns[Qn]
        good1 = [v for v in pool if AG.conforms(v, a1, env) is True]
        if not good1:
            continue
        parent_first = hr.random() < 0.7
        if parent_first:
            r = construct(PC, {"a": hr.choice(good1)}, True)  # the parent class is used (with checks on) before the subclass
            if r[0] == "ok":
                r[1].detach_self()
            ctx.count("parent_used_before_subclass")
        ann_a = a3 if override else a1
        for _ in range(8):
            va, vb = hr.choice(pool), hr.choice(pool)
            ca, cb = AG.conforms(va, ann_a, env), AG.conforms(vb, a2, env)
            if ca is None or cb is None:
                continue
            exp_bad = sorted(([] if ca else ["a"]) + ([] if cb else ["b"]))
            ctx.evaluations += 1
            detail = {"source": src.replace(P, ""), "values": {"a": vrepr(va), "b": vrepr(vb)}, "expected_invalid": exp_bad, "parent_first": parent_first}
            r = construct(QC, {"a": va, "b": vb}, True)
            if r[0] == "ok":
                r[1].detach_self()
            if r[0] == "other":
                ctx.violation("construct-raised-other", f"construction raised {r[1]}", detail)
            elif exp_bad and r[0] == "ok":
                ctx.violation("nonconforming-accepted", "a subclass construction with ill-typed fields was accepted", detail)
            elif exp_bad and r[1] != exp_bad:
                ctx.violation("invalid-fields-wrong", "invalid_fields of a subclass construction are wrong", dict(detail, got=r[1]))
            elif not exp_bad and r[0] != "ok":
                ctx.violation("conforming-rejected", "a well-typed subclass construction was rejected", dict(detail, got=r[1]))
    # ------------------------------------------------------------ multi-field classes
    acc = [a for a in d1 if AG.classify(a) == "PROP" and AG.unwrap_nt(a)[0] not in ("any",)]
    for m in range(ctx.params["multi"]):
        ctx.case = ("multi", m)
        mr = ctx.rng(("multi", m))
        nf = mr.randint(3, 5)
        anns = [mr.choice(acc) for _ in range(nf)]
        T = f"{P}M{m}"
        # some fields are declared compare=False: they are type-checked like any other field
        ncmp = [mr.random() < 0.3 for _ in anns]
        if any(ncmp):
            ctx.count("noncompare_fields_checked")
        src = f"@dataclass(frozen=True)\nclass {T}(ASTNode):\n" + "".join(
            f"    f{i}: {AG.render(a, P)}" + (" = field(compare=False, kw_only=True)\n" if ncmp[i] else "\n") for i, a in enumerate(anns)
        )
        # an init=False field whose default is ill-typed / well-typed
        bad_default = mr.random() < 0.5
        src += f"    z: int = field(default={'\"bad\"' if bad_default else '3'}, init=False)\n"
        try:
            exec(compile(src, f"<c13 {T}>", "exec", dont_inherit=True), ns)
        except Exception:  # noqa: BLE001
            if "/mashumaro/" in traceback.format_exc():
                ctx.count("no_verdict_mashumaro_definition")
                continue
            raise
        C = ns[T]
        for _ in range(6):
            kw = {}
            exp_bad = set()
            dont = False
            for i, a in enumerate(anns):
                want_good = mr.random() < 0.6
                cands = [v for v in pool if AG.conforms(v, a, env) is want_good]
                if not cands:
                    cands = [v for v in pool if AG.conforms(v, a, env) is not None]
                v = mr.choice(cands)
                kw[f"f{i}"] = v
                c = AG.conforms(v, a, env)
                if c is None:
                    dont = True
                if c is False:
                    exp_bad.add(f"f{i}")
            if dont:
                continue
            if bad_default:
                exp_bad.add("z")
                ctx.count("noninit_bad_default")
            if len(exp_bad) >= 2:
                ctx.count("multi_two_bad")
            ctx.evaluations += 1
            detail = {"source": src.replace(P, ""), "values": {k_: vrepr(v) for k_, v in kw.items()}, "expected_invalid": sorted(exp_bad)}
            ctx.fp(("multi", detail["source"], tuple(sorted(detail["values"].items()))))
            r = construct(C, kw, True)
            if r[0] == "other":
                mech = "mapping-runtime-error" if "report a bug" in r[1] else "construct-raised-other"
                ctx.violation(mech, f"multi-field construction raised {r[1]}", detail)
                continue
            if exp_bad:
                if r[0] == "ok":
                    ctx.violation("nonconforming-accepted", "a construction with ill-typed fields was accepted", detail)
                    r[1].detach_self()
                elif r[1] != sorted(exp_bad):
                    ctx.violation("invalid-fields-wrong", "invalid_fields are not exactly the non-conforming fields", dict(detail, got=r[1]))
            else:
                if r[0] != "ok":
                    ctx.violation("conforming-rejected", "a well-typed construction was rejected", dict(detail, got=r[1]))
                else:
                    r[1].detach_self()
            r2 = construct(C, kw, False)
            if r2[0] != "ok":
                ctx.violation("switch-off-raised", f"construction with checks off failed: {r2[1]}", detail)
            else:
                r2[1].detach_self()
