"""C06 — Tree answers upward queries consistently with the downward structure.

REF: parent map / ancestor chains / depths are computed from the tree spec; every
unary query is asked for every node, every binary query for all ordered pairs,
foreign nodes (incl. registered content+origin identical twins of members) must
raise KeyError, get_xpath is *followed* from the root by a tiny interpreter.
"""
from __future__ import annotations

import re
import sys

from vlib import gen as G
from vlib.spec import S, Pos, build, preorder, spec_json, deep_copy
from vlib.universe import core_universe

LEVEL = "exploration"
TYPECHECK_OK = True  # every generated value conforms to its annotation: shards may run with RUNTIME_TYPE_CHECK on
RULE = (
    "cases = trees without repeated node objects over the core universe (twins with equal content and origin at "
    "different positions, chains, wide tuples with index >= 10, all field shapes, multiple inheritance); per tree every "
    "node is asked every unary query, all ordered pairs every binary query, every class of a panel both exact and "
    "instance; non-trivial = tree with >= 3 nodes; distinct = distinct tree fingerprints"
)
ASSUMPTIONS = ["all nodes of a tree are registered (handles are held) and no object occurs twice, as the statement requires"]
MUST_SEE = ["derived_child_field_queries", "deep_3000_queries", "virtual_subclass_queries", "remodelled_class_tree", "interleaved_ancestor_chains", "relative_depth_unchecked", "absolute_after_relative", "both_foreign_keyerrors", "twin_pairs_in_tree", "foreign_twins", "non_ancestor_pairs", "index_ge_10", "root_relative_valueerror", "keyerrors", "subtree_trees", "exact_tuple_hits"]
CONFIG = {
    "quick": {"shards": 16, "trees": 400, "max_nodes": 28, "watchdog_s": 300},
    "thorough": {"shards": 32, "trees": 600, "max_nodes": 45, "watchdog_s": 3000},
}

SEG = re.compile(r"/@([A-Za-z_][A-Za-z_0-9]*)\[(\d+)\]([A-Za-z_][A-Za-z_0-9]*)")


def follow_xpath(root, xp: str):
    """Walk an xpath produced by Tree.get_xpath from the root; returns the node reached or raises."""
    segs = SEG.findall(xp)
    if "".join(f"/@{f}[{i}]{c}" for f, i, c in segs) != xp:
        raise ValueError(f"unparsable xpath {xp!r}")
    f0, i0, c0 = segs[0]
    if (f0, i0) != ("root", "0") or c0 != type(root).__name__:
        raise ValueError(f"bad root segment in {xp!r}")
    cur = root
    for f, i, c in segs[1:]:
        v = getattr(cur, f)
        if isinstance(v, tuple):
            cur = v[int(i)]
        else:
            if int(i) != 0:
                raise ValueError(f"index {i} on single field in {xp!r}")
            cur = v
        if type(cur).__name__ != c:
            raise ValueError(f"class mismatch at {f}[{i}]{c} in {xp!r}")
    return cur


def run_shard(ctx):
    sys.setrecursionlimit(20000)
    from pyoak.tree import Tree

    U = core_universe()
    P = U.P
    ntrees = ctx.params["trees"]
    for case in ctx.cases(ntrees + 2):
        rng = ctx.rng(case)
        if case == ntrees:
            s = S(f"{P}Leaf", {"v": 1})
            for i in range(60):
                s = S(f"{P}Un", {"op": "u"}, {"child": s})
        elif case == ntrees + 1:
            kids = tuple(S(f"{P}Leaf", {"v": i % 3}) for i in range(13))
            s = S(f"{P}List", {}, {"items": kids, "root": S(f"{P}Leaf", {"v": 0})})
            s = S(f"{P}Stmt", {}, {"body": (s, deep_copy(s))})
        else:
            tg = G.TreeGen(rng, U, max_nodes=ctx.params["max_nodes"], max_depth=7, max_width=12, share=0.0, twin=0.35, p_origin=0.3, hostile=0.0)
            s = tg.tree()
        root = build(U, s)
        pos = preorder(U, s)
        n = len(pos)
        obj = {}
        for p in pos:
            if p.parent is None:
                obj[id(p)] = root
            else:
                v = getattr(obj[id(p.parent)], p.field)
                obj[id(p)] = v if p.index is None else v[p.index]
        nodes = [obj[id(p)] for p in pos]
        assert len({id(x) for x in nodes}) == n
        chain = {}  # id(pos) -> list of ancestor positions, nearest first
        for p in pos:
            c = []
            q = p.parent
            while q is not None:
                c.append(q)
                q = q.parent
            chain[id(p)] = c
        if n >= 3:
            ctx.fp(G.shape_fingerprint(U, s))
        if case < 1 and ctx.shard == 0:
            ctx.sample({"tree": spec_json(s), "nodes": n})
        if rng.random() < 0.5:
            # query a sub-tree Tree first (shared node objects, other root)
            cands = [k for k, p in enumerate(pos) if p.parent is not None]
            if cands:
                pre_t = Tree(nodes[rng.choice(cands)])
                for x in nodes:
                    if pre_t.is_in_tree(x):
                        list(pre_t.get_ancestors(x)), pre_t.get_depth(x)
        t = Tree(root) if rng.random() < 0.5 else root.to_tree()
        ctx.count("trees")
        # twins inside the tree (== but different object)
        tw = 0
        for i in range(n):
            for j in range(i + 1, n):
                if nodes[i].content_id == nodes[j].content_id and type(nodes[i]) is type(nodes[j]) and nodes[i] == nodes[j]:
                    tw += 1
        ctx.count("twin_pairs_in_tree", tw)
        if any(p.index is not None and p.index >= 10 for p in pos):
            ctx.count("index_ge_10")

        def bad(mech, what, **d):
            d["tree"] = spec_json(s)
            ctx.violation(mech, what, d)

        if t.root is not root:
            bad("root", "Tree.root is not the root")
        xps = {}
        for k, p in enumerate(pos):
            nd = nodes[k]
            ctx.evaluations += 1
            exp_parent = obj[id(p.parent)] if p.parent is not None else None
            if not t.is_in_tree(nd):
                bad("is_in_tree", "member reported as not in tree", node=k)
            if t.get_parent(nd) is not exp_parent:
                bad("get_parent", "wrong parent", node=k)
            pi = t.get_parent_info(nd)
            if p.parent is None:
                if tuple(pi) != (None, None, None):
                    bad("get_parent_info", "root parent info is not (None, None, None)", node=k)
            else:
                if pi[0] is not exp_parent or pi[1].name != p.field or pi[2] != p.index or pi[1] is not type(exp_parent).__dataclass_fields__[p.field]:
                    bad("get_parent_info", "wrong parent info", node=k, got=(pi[1].name, pi[2]), exp=(p.field, p.index))
            anc = list(t.get_ancestors(nd))
            exp_anc = [obj[id(q)] for q in chain[id(p)]]
            if [id(a) for a in anc] != [id(a) for a in exp_anc]:
                bad("get_ancestors", "ancestor chain differs", node=k)
            if t.get_depth(nd) != p.depth:
                bad("get_depth", "absolute depth differs", node=k, got=t.get_depth(nd), exp=p.depth)
            if t.is_root(nd) != (p.parent is None):
                bad("is_root", "is_root wrong", node=k)
            # first ancestor of type
            panel = [f"{P}Expr", f"{P}Leaf", f"{P}Bin", f"{P}List", f"{P}Un", f"{P}Stmt", f"{P}Left", f"{P}Right"]
            for cn in panel:
                C = U.cls[cn]
                for exact in (False, True):
                    exp = None
                    for a in exp_anc:
                        if (type(a) is C) if exact else isinstance(a, C):
                            exp = a
                            break
                    # a flag is its truth value: True / False may be given as 1 / 0
                    got = t.get_first_ancestor_of_type(nd, C, exact_type=exact if (k + len(cn)) % 3 else int(exact))
                    if got is not exp:
                        bad("first_ancestor", "get_first_ancestor_of_type wrong", node=k, cls=cn, exact=exact)
            C2 = (U.cls[f"{P}Bin"], U.cls[f"{P}List"], U.cls[f"{P}Un"], U.cls[f"{P}Call"])
            exp = next((a for a in exp_anc if isinstance(a, C2)), None)
            if t.get_first_ancestor_of_type(nd, C2) is not exp:
                bad("first_ancestor", "get_first_ancestor_of_type (tuple of classes) wrong", node=k)
            exp = next((a for a in exp_anc if type(a) in C2), None)
            if exp is not None:
                ctx.count("exact_tuple_hits")
            if t.get_first_ancestor_of_type(nd, C2, exact_type=True if k % 2 else 1) is not exp:
                bad("first_ancestor", "get_first_ancestor_of_type (tuple of classes, exact_type=True) wrong", node=k)
            # xpath
            xp = t.get_xpath(nd)
            try:
                reached = follow_xpath(root, xp)
            except Exception as e:  # noqa: BLE001
                bad("get_xpath", f"xpath cannot be followed: {e}", node=k, xpath=xp)
                reached = nd
            if reached is not nd:
                bad("get_xpath", "following the xpath reaches a different node", node=k, xpath=xp)
            if xp in xps:
                bad("get_xpath", "two nodes share one xpath", node=k, other=xps[xp], xpath=xp)
            xps[xp] = k
        # binary queries on all ordered pairs
        pairs = [(i, j) for i in range(n) for j in range(n)]
        if len(pairs) > 2500:
            pairs = rng.sample(pairs, 2500)
        for i, j in pairs:
            ctx.evaluations += 1
            pn, pm = pos[i], pos[j]
            is_anc = any(q is pm for q in chain[id(pn)])
            got = t.is_ancestor(nodes[i], nodes[j])
            if got != is_anc:
                bad("is_ancestor", "is_ancestor disagrees with the parent chain", node=i, ancestor=j, got=got)
            try:
                d = t.get_depth(nodes[i], relative_to=nodes[j])
                r = ("ok", d)
            except ValueError:
                r = ("ValueError",)
            except Exception as e:  # noqa: BLE001
                r = ("other", type(e).__name__)
            if is_anc:
                # the relative depth to a true ancestor is the same whether or not the ancestor check is asked for
                ctx.count("relative_depth_unchecked")
                try:
                    d2 = t.get_depth(nodes[i], relative_to=nodes[j], check_ancestor=False)
                except Exception as e:  # noqa: BLE001
                    d2 = type(e).__name__
                if d2 != pn.depth - pm.depth:
                    bad("relative_depth", "relative get_depth with check_ancestor=False wrong for a true ancestor", node=i, relative_to=j, got=d2, exp=pn.depth - pm.depth)
                exp_r = ("ok", pn.depth - pm.depth)
            else:
                exp_r = ("ValueError",)
                ctx.count("non_ancestor_pairs")
                if pn.parent is None:
                    ctx.count("root_relative_valueerror")
            if r != exp_r:
                bad("relative_depth", "relative get_depth wrong", node=i, relative_to=j, got=r, exp=exp_r)
        # ancestor chains consumed in lock-step, and queries made while a chain is being consumed
        if n >= 3:
            ia, ib = rng.sample(range(n), 2)
            ea, eb = [id(obj[id(q)]) for q in chain[id(pos[ia])]], [id(obj[id(q)]) for q in chain[id(pos[ib])]]
            ga, gb = [], []
            for xa, xb in zip(t.get_ancestors(nodes[ia]), t.get_ancestors(nodes[ib])):
                ga.append(id(xa))
                gb.append(id(xb))
            m_ = min(len(ea), len(eb))
            nested = []
            for xa in t.get_ancestors(nodes[ia]):
                t.is_ancestor(nodes[ib], xa), t.get_depth(nodes[ib]), list(t.get_ancestors(nodes[ib]))
                nested.append(id(xa))
            ctx.evaluations += 2
            ctx.count("interleaved_ancestor_chains")
            if ga != ea[: len(ga)] or gb != eb[: len(gb)] or len(ga) != m_ or nested != ea:
                bad("get_ancestors", "ancestor chains consumed in lock-step / with other queries in between differ from the parent chains", nodes=(ia, ib))
        # query order: a fresh Tree whose first queries are relative ones, then absolute ones (and the first Tree again)
        t3 = Tree(root)
        for i, j in rng.sample(pairs, min(len(pairs), 200)):
            try:
                t3.get_depth(nodes[i], relative_to=nodes[j])
            except ValueError:
                pass
        for k, p in enumerate(pos):
            ctx.evaluations += 1
            ctx.count("absolute_after_relative")
            g3, g1 = t3.get_depth(nodes[k]), t.get_depth(nodes[k])
            if g3 != p.depth or g1 != p.depth:
                bad("get_depth", "absolute depth asked after relative depths differs", node=k, got=(g3, g1), exp=p.depth)
                break
        # a second Tree over a sub-tree of the same objects (queried before or after the whole tree):
        # its answers are relative to its own root and must not be influenced by the other Tree
        inner = [k for k, p in enumerate(pos) if p.parent is not None and any(q.parent is p for q in pos)]
        if inner:
            k0 = rng.choice(inner)
            sub_root = nodes[k0]
            t2 = Tree(sub_root)
            ctx.count("subtree_trees")
            members = [k for k, p in enumerate(pos) if k == k0 or any(q is pos[k0] for q in chain[id(p)])]
            for k in members:
                nd = nodes[k]
                exp_chain = []
                for q in chain[id(pos[k])]:
                    exp_chain.append(obj[id(q)])
                    if q is pos[k0]:
                        break
                if k == k0:
                    exp_chain = []
                ctx.evaluations += 1
                if [id(a) for a in t2.get_ancestors(nd)] != [id(a) for a in exp_chain] or t2.get_depth(nd) != len(exp_chain):
                    bad("subtree-tree", "a Tree over a sub-tree answers with another tree's ancestor chain", node=k, subtree_root=k0)
                    break
                if [id(a) for a in t.get_ancestors(nd)] != [id(obj[id(q)]) for q in chain[id(pos[k])]]:
                    bad("subtree-tree", "the whole tree's ancestor chain changed after a sub-tree Tree was queried", node=k, subtree_root=k0)
                    break
            outsider = next((nodes[k] for k in range(n) if k not in members), None)
            if outsider is not None:
                if t2.is_in_tree(outsider):
                    bad("subtree-tree", "a node outside the sub-tree is reported in the sub-tree's Tree")
                try:
                    list(t2.get_ancestors(outsider))
                    bad("subtree-tree", "get_ancestors of a node outside the sub-tree's Tree did not raise KeyError")
                except KeyError:
                    pass
        # foreign nodes: twins of members (registered, == to the member), other trees, fresh nodes
        foreign = []
        for k in rng.sample(range(n), min(3, n)):
            twin = nodes[k].duplicate()
            if twin == nodes[k] and twin is not nodes[k]:
                ctx.count("foreign_twins")
            foreign.append(twin)
        foreign.append(U.cls[f"{P}Leaf"](v=12345))
        for fn in foreign:
            ctx.evaluations += 1
            if t.is_in_tree(fn):
                bad("foreign", "foreign node reported in tree")
            try:
                if t.is_root(fn):
                    bad("foreign", "a node outside the tree is reported as the root")
            except KeyError:
                pass
            for name, call in (
                ("get_parent", lambda: t.get_parent(fn)),
                ("get_parent_info", lambda: t.get_parent_info(fn)),
                ("get_xpath", lambda: t.get_xpath(fn)),
                ("get_ancestors", lambda: list(t.get_ancestors(fn))),
                ("get_depth", lambda: t.get_depth(fn)),
                ("is_ancestor", lambda: t.is_ancestor(fn, root)),
                ("get_first_ancestor_of_type", lambda: t.get_first_ancestor_of_type(fn, U.cls[f"{P}Expr"])),
            ):
                try:
                    call()
                    r = "returned"
                except KeyError:
                    r = "KeyError"
                    ctx.count("keyerrors")
                except Exception as e:  # noqa: BLE001
                    r = type(e).__name__
                if r != "KeyError":
                    bad("foreign", f"{name}(foreign node) did not raise KeyError", got=r)
            # foreign as ancestor / relative_to argument of a member
            m = nodes[rng.randrange(n)]
            if t.is_ancestor(m, fn):
                bad("is_ancestor", "foreign node (possibly a twin of a real ancestor) reported as ancestor")
            try:
                t.get_depth(m, relative_to=fn)
                bad("relative_depth", "relative depth to a foreign node did not raise ValueError")
            except ValueError:
                pass
        # both arguments outside the tree: "the node is not in the tree" wins (KeyError), whatever the other argument is
        for fa, fb in ((foreign[0], foreign[-1]), (foreign[-1], foreign[0]), (foreign[-1], foreign[-1])):
            for name, call in (
                ("is_ancestor(foreign, other foreign)", lambda: t.is_ancestor(fa, fb)),
                ("get_depth(foreign, relative_to=other foreign)", lambda: t.get_depth(fa, relative_to=fb)),
                ("get_depth(foreign, relative_to=other foreign, check_ancestor=False)", lambda: t.get_depth(fa, relative_to=fb, check_ancestor=False)),
            ):
                ctx.evaluations += 1
                try:
                    call()
                    r = "returned"
                except KeyError:
                    r = "KeyError"
                    ctx.count("both_foreign_keyerrors")
                except Exception as e:  # noqa: BLE001
                    r = type(e).__name__
                if r != "KeyError":
                    bad("foreign", f"{name} did not raise KeyError", got=r)
        del foreign


def remodel_leg(ctx, U, Tree):
    """a Tree over instances of a class that was defined again (more child fields) after its first version was used"""
    from vlib.universe import remodelled_class

    old, new, leaf = remodelled_class(U, "C06")
    a, b, c, d = leaf(v=21), leaf(v=22), leaf(v=23), leaf(v=24)
    n = new(first=a, second=(b, c), third=d, v=5)
    t = Tree(n)
    ctx.evaluations += 1
    ctx.count("remodelled_class_tree")
    f = new.__dataclass_fields__
    exp = {id(a): (n, f["first"], None), id(b): (n, f["second"], 0), id(c): (n, f["second"], 1), id(d): (n, f["third"], None)}
    for x in (a, b, c, d):
        try:
            ok = t.is_in_tree(x) and tuple(t.get_parent_info(x)) == exp[id(x)] and t.get_depth(x) == 1 and list(t.get_ancestors(x)) == [n]
        except KeyError:
            ok = False
        if not ok:
            ctx.violation("get_parent_info", "a Tree over a node whose class was defined again (more child fields) does not know all descendants / reports another class's field", {"class": new.__name__})
            break
    n.detach()


_main_run_shard = run_shard


def deep_leg(ctx, U, Tree):
    """upward queries on a chain 3000 levels deep, under the interpreter's default recursion limit"""
    P = U.P
    leaf = U.cls[f"{P}Leaf"](v=1)
    n, chain = leaf, [leaf]
    for _ in range(3000):
        n = U.cls[f"{P}Un"](child=n)
        chain.append(n)
    t = Tree(n)
    mid = chain[1500]
    old = sys.getrecursionlimit()
    sys.setrecursionlimit(1000)
    try:
        for name, call, exp in (
            ("get_depth", lambda: t.get_depth(leaf), 3000),
            ("get_depth(relative_to)", lambda: t.get_depth(leaf, relative_to=mid), 1500),
            ("get_depth(relative_to, check_ancestor=False)", lambda: t.get_depth(leaf, relative_to=mid, check_ancestor=False), 1500),
            ("get_ancestors", lambda: len(list(t.get_ancestors(leaf))), 3000),
            ("is_ancestor", lambda: t.is_ancestor(leaf, n) and t.is_ancestor(leaf, mid) and not t.is_ancestor(mid, leaf), True),
            ("get_first_ancestor_of_type", lambda: t.get_first_ancestor_of_type(leaf, U.cls[f"{P}Un"]) is chain[1] and t.get_first_ancestor_of_type(leaf, U.cls[f"{P}List"]) is None, True),
            ("get_parent / is_in_tree", lambda: t.get_parent(leaf) is chain[1] and t.is_in_tree(mid) and t.is_root(n), True),
            ("get_xpath", lambda: t.get_xpath(leaf).count("/@child[0]"), 3000),
        ):
            ctx.evaluations += 1
            ctx.count("deep_3000_queries")
            try:
                got = call()
            except RecursionError:
                got = "RecursionError"
            if got != exp:
                ctx.violation("deep-tree", f"{name} on a tree 3000 levels deep gave {got!r}, expected {exp!r}", {"depth": 3000})
    finally:
        sys.setrecursionlimit(old)
    n.detach()


def derived_child_leg(ctx, U, Tree):
    """child fields the class fills in itself (init=False, with and without compare=False): their nodes are in the tree"""
    P = U.P
    name = f"{P}Implied6"
    if name not in U.module.__dict__:
        src = (
            f"@dataclass(frozen=True)\nclass {name}({P}Expr):\n    v: int = 0\n    kid: {P}Expr | None = None\n"
            f"    implied: {P}Expr | None = field(default=None, init=False, compare=False)\n    shadow: {P}Expr | None = field(default=None, init=False)\n"
            f"    aside: {P}Expr | None = field(default=None, compare=False)\n\n"
            f"    def __post_init__(self):\n        object.__setattr__(self, 'implied', {P}Un(child={P}Leaf(v=self.v, s='implied')))\n"
            f"        object.__setattr__(self, 'shadow', {P}Leaf(v=self.v, s='shadow'))\n        super().__post_init__()\n"
        )
        exec(compile(src, "<c06 implied>", "exec", dont_inherit=True), U.module.__dict__)
    C = U.module.__dict__[name]
    inner = C(v=2, kid=U.cls[f"{P}Leaf"](v=20), aside=U.cls[f"{P}Leaf"](v=21))
    root = U.cls[f"{P}List"](items=(C(v=1, kid=inner), U.cls[f"{P}Leaf"](v=3)))
    t = Tree(root)
    outer = root.items[0]
    for node, parent, fname, depth in (
        (outer.implied, outer, "implied", 2), (outer.implied.child, outer.implied, "child", 3), (outer.shadow, outer, "shadow", 2),
        (inner, outer, "kid", 2), (inner.implied, inner, "implied", 3), (inner.implied.child, inner.implied, "child", 4), (inner.shadow, inner, "shadow", 3), (inner.aside, inner, "aside", 3),
    ):
        ctx.evaluations += 1
        ctx.count("derived_child_field_queries")
        try:
            pi = t.get_parent_info(node)
            got = (t.is_in_tree(node), t.get_parent(node) is parent, pi is not None and pi.field.name == fname, t.get_depth(node), t.is_ancestor(node, root), [id(a) for a in t.get_ancestors(node)][:1] == [id(parent)])
        except Exception as e:  # noqa: BLE001
            got = f"{type(e).__name__}: {e}"[:120]
        if got != (True, True, True, depth, True, True):
            ctx.violation("derived-child", f"queries about the node in the self-filled child field '{fname}' gave {got!r}", {"field": fname, "expected": (True, True, True, depth, True, True)})
    del t
    root.detach()


def virtual_subclass_leg(ctx, U, Tree):
    """'instance' means isinstance: a class registered as a virtual subclass of an abstract node base counts"""
    from abc import ABC

    P = U.P
    name = f"{P}ScopeBase"
    if name not in U.module.__dict__:
        exec(compile(f"class {name}({P}Expr, ABC):\n    pass\n", "<c06 abc>", "exec", dont_inherit=True), U.module.__dict__)
    Scope = U.module.__dict__[name]
    Scope.register(U.cls[f"{P}Un"])
    leaf = U.cls[f"{P}Leaf"](v=5)
    un = U.cls[f"{P}Un"](child=U.cls[f"{P}List"](items=(leaf,)))
    top = U.cls[f"{P}List"](items=(U.cls[f"{P}Bin"](left=un, right=U.cls[f"{P}Leaf"](v=6)),))
    t = Tree(top)
    ctx.evaluations += 2
    ctx.count("virtual_subclass_queries")
    if t.get_first_ancestor_of_type(leaf, Scope) is not un or t.get_first_ancestor_of_type(leaf, (U.cls[f"{P}Bin"], Scope)) is not un:
        ctx.violation("first_ancestor", "get_first_ancestor_of_type (instance mode) ignores a class registered as virtual subclass of the requested abstract base", {"requested": name})
    if t.get_first_ancestor_of_type(leaf, Scope, exact_type=True) is not None:
        ctx.violation("first_ancestor", "get_first_ancestor_of_type (exact mode) returned an instance of another class", {"requested": name})
    top.detach()


def run_shard(ctx):  # noqa: F811 - the main loop, then the legs that need a history of class definitions
    _main_run_shard(ctx)
    if ctx.only_case is None:
        from pyoak.tree import Tree

        remodel_leg(ctx, core_universe(), Tree)
        virtual_subclass_leg(ctx, core_universe(), Tree)
        derived_child_leg(ctx, core_universe(), Tree)
        if ctx.shard % 4 == 0:
            deep_leg(ctx, core_universe(), Tree)
