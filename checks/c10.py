"""C10 — no operation ever modifies an existing node.

FRAME + write watcher: histories over all public operations; before each operation
every node reachable from the handle table is snapshotted (identity of every
dataclass field value, id, content_id, hash) and compared afterwards, also when the
operation raises. A sys.monitoring CALL watcher records every object.__setattr__ /
__delattr__ / setattr / delattr whose target is a node that existed before the
operation. Direct assignment / deletion of every field of every class must raise.
Second workload: the repository's own tests under icontract frame contracts.
"""
from __future__ import annotations

import dataclasses
import json
import os
import subprocess
import sys

from vlib import gen as G
from vlib import origins as O
from vlib.regmodel import reachable
from vlib.spec import S, build, preorder, spec_json
from vlib.universe import core_universe

LEVEL = "exploration"
RULE = (
    "histories of 30-60 public operations over a handle table (dfs/bfs/gather with predicates, children and property "
    "accessors, Tree queries, xpath find/findall/match, pattern matching with captures, visitors and transform visitors "
    "incl. raising ones, duplicate, replace succeeding and failing (TypeError, ValueError, InvalidTypes), "
    "dataclasses.replace, detach, detach_self, as_dict/as_obj/to_json/from_json/to_msgpck/from_msgpck/to_yaml/from_yaml with "
    "option subsets and with originals alive / detached / dropped, ==, !=, hash, is_equal, rich rendering); frame of every "
    "reachable pre-existing node around every operation; write watcher on object.__setattr__/__delattr__/setattr/delattr; "
    "setattr / delattr of every field of every class; the repository's 244 tests under frame contracts; non-trivial = "
    "operation with >= 2 pre-existing nodes; distinct = distinct (operation kind, tree fingerprint)"
)
ASSUMPTIONS = [
    "a field value 'changes' when it is replaced by another object that is not an equal value of the same type; node-valued fields must keep the identical object",
    "registry membership may change only as specified for detach / replace (C03's subject) and is not part of the frame",
]
TYPECHECK_OK = True  # every generated value conforms to its annotation: some shards run with RUNTIME_TYPE_CHECK on
MUST_SEE = ["replace_refused_by_user_post_init", "dump_of_younger_twin_loaded", "equal_node_of_redefined_class_constructed", "one_byte_ids", "replace_with_child_field_changes", "membership_checked_around_detach_or_replace", "init_false_child_fields", "registry_membership_checked", "tagless_payload_read_while_alive", "origin_algebra_on_node_origins", "comparisons_with_equal_but_distinct_origin_objects", "compiled_xpath_reused", "mutable_container_in_property", "list_valued_tuple_fields", "hash_churn_rounds", "copy_protocol_ops", "digest_size_switches", "ops", "frames_checked", "raising_ops", "watched_writes_on_new_nodes", "setattr_rejected", "delattr_rejected", "repo_tests_contract_evaluations", "deserialize_registry_hits", "failing_replace_on_suffix_twin", "transform_returns_existing_node", "transform_rebuilds_equal_node"]
CONFIG = {
    "quick": {"shards": 16, "histories": 30, "ops": 35, "watchdog_s": 600},
    "thorough": {"shards": 32, "histories": 200, "ops": 60, "watchdog_s": 3400},
}


class Boom(Exception):
    pass


COMPILED_XPATHS: dict = {}


REDEF_COUNTER = [0]


def _deep(v):
    """copy of a mutable container held by a field: an in-place edit of it is a change of the field's value"""
    import copy

    from pyoak.node import ASTNode

    if hasattr(v, "fqn") and hasattr(v, "source") and hasattr(v, "position"):
        return ("origin", O.canon_real_full(v))  # an origin object: what it says must stay what it said
    if isinstance(v, list) and any(isinstance(x, ASTNode) for x in v):
        return ("elements", [id(x) for x in v])  # a list of nodes: the same objects in the same order
    return copy.deepcopy(v) if isinstance(v, (dict, list, set, bytearray)) else None


def take_frame(U, handles):
    from pyoak.node import NODE_REGISTRY

    snap = {}
    everything = list(reachable(U, handles).values())
    seen = {id(n) for n in everything}
    # every other live registered node as well (nodes the library itself created and keeps, e.g. helper nodes)
    everything += [n for n in list(NODE_REGISTRY.values()) if id(n) not in seen]
    for n in everything:
        vals = tuple((f.name, getattr(n, f.name), _deep(getattr(n, f.name))) for f in dataclasses.fields(n))
        snap[id(n)] = (n, vals, n.id, n.content_id, hash(n))
    return snap


def diff_frame(snap):
    from pyoak.node import ASTNode

    for n, vals, id_, cid, h in snap.values():
        for name, old, deep in vals:
            try:
                new = getattr(n, name)
            except AttributeError:
                return f"{type(n).__name__}.{name} was deleted"
            if new is old:
                if isinstance(deep, tuple) and deep and deep[0] == "origin":
                    if O.canon_real_full(new) != deep[1]:
                        return f"{type(n).__name__}.{name}: the origin object held by the field was changed in place"
                    continue
                if isinstance(deep, tuple) and deep and deep[0] == "elements":
                    if [id(x) for x in new] != deep[1]:
                        return f"{type(n).__name__}.{name}: the list held by the field was edited in place"
                    continue
                if deep is not None and (new != deep or repr(new) != repr(deep)):
                    return f"{type(n).__name__}.{name}: the container held by the field was edited in place, from {deep!r:.60} to {new!r:.60}"
                continue
            if isinstance(old, ASTNode) or isinstance(new, ASTNode):
                return f"{type(n).__name__}.{name}: node-valued field holds another object"
            if isinstance(old, tuple) and isinstance(new, tuple) and len(old) == len(new) and all(a is b for a, b in zip(old, new)):
                return f"{type(n).__name__}.{name}: tuple object replaced (same elements)"
            if type(new) is not type(old) or new != old:
                return f"{type(n).__name__}.{name} changed from {old!r:.60} to {new!r:.60}"
            if not isinstance(old, (str, int, float, bool, bytes, type(None))):
                # an equal but other object (e.g. the origin of the node compared with) was bound to the field
                return f"{type(n).__name__}.{name}: the field was re-bound to another (equal) object of type {type(new).__name__}"
        if n.id != id_:
            return f"{type(n).__name__}.id changed from {id_} to {n.id}"
        if n.content_id != cid:
            return f"{type(n).__name__}.content_id changed"
        if hash(n) != h:
            return f"hash({type(n).__name__}) changed"
    return None


def run_shard(ctx):
    sys.setrecursionlimit(20000)
    from pyoak import config
    from pyoak.error import InvalidTypes
    from pyoak.match.pattern import NodeMatcher
    from pyoak.match.xpath import ASTXpath
    from pyoak.node import AST_SERIALIZE_DIALECT_KEY, NODE_REGISTRY, ASTNode, ASTSerializationDialects
    from pyoak.origin import SOURCE_OPTIMIZED_SERIALIZATION_KEY
    from pyoak.serialize import SerializationOption
    from pyoak.tree import Tree
    from pyoak.visitor import ASTTransformVisitor, ASTVisitor

    U = core_universe()
    P = U.P
    for i in range(O.N_SOURCES):
        O.source(i)

    # ------------------------------------------------------------------ direct mutation leg
    if ctx.only_case is None and ctx.shard % 4 == 0:
        rng = ctx.rng("direct")
        tg = G.TreeGen(rng, U, max_nodes=1, max_depth=1)
        for cn in U.concrete():
            kw = {}
            for f in U.child_fields(cn):
                if f.shape == "one":
                    kw[f.name] = U.cls[f"{P}Leaf"]()
                elif f.shape.startswith("fixed"):
                    kw[f.name] = tuple(U.cls[f"{P}Leaf"](v=i) for i in range(int(f.shape[5:])))
            n = U.cls[cn](**kw)
            for f in dataclasses.fields(n):
                before = getattr(n, f.name)
                for how in ("setattr", "object-level-assign", "delattr"):
                    ctx.evaluations += 1
                    try:
                        if how == "setattr":
                            setattr(n, f.name, "mutated")
                        elif how == "object-level-assign":
                            exec(f"n.{f.name} = 5", {"n": n})
                        else:
                            delattr(n, f.name)
                        r = "no exception"
                    except Exception as e:  # noqa: BLE001
                        r = type(e).__name__
                    ctx.count("setattr_rejected" if how != "delattr" and r != "no exception" else "delattr_rejected" if r != "no exception" else "mutation_accepted")
                    still = getattr(n, f.name, "<deleted>")
                    if r == "no exception" or still is not before:
                        ctx.violation("direct-mutation", f"{how} on {cn}.{f.name} did not raise or changed the value", {"class": cn, "field": f.name, "outcome": r})
            ctx.evaluations += 1
            try:
                n.brand_new_attribute = 1
                ctx.violation("direct-mutation", f"a new attribute could be set on an instance of {cn}", {"class": cn})
            except Exception:  # noqa: BLE001
                ctx.count("setattr_rejected")
            n.detach()

    # ------------------------------------------------------------------ write watcher
    mon = sys.monitoring
    TOOL = 5
    try:
        mon.use_tool_id(TOOL, "verif-c10")
        watcher_on = True
    except ValueError:
        watcher_on = False
    WATCHED = {object.__setattr__: "object.__setattr__", object.__delattr__: "object.__delattr__", setattr: "setattr", delattr: "delattr"}
    WATCHED_LIST = list(WATCHED.items())
    state = {"pre": set(), "hits": [], "new_writes": 0}
    src_root = os.path.dirname(os.path.abspath(sys.modules["pyoak"].__file__))

    def on_call(code, offset, callable_, arg0):
        # identity comparison: hashing an arbitrary callable (e.g. a dead weakref) may raise
        name = None
        for w, wname in WATCHED_LIST:
            if callable_ is w:
                name = wname
                break
        if name is None:
            return None
        if isinstance(arg0, ASTNode):
            if id(arg0) in state["pre"]:
                state["hits"].append((name, code.co_filename.replace(src_root, "pyoak"), code.co_name, type(arg0).__name__))
            else:
                state["new_writes"] += 1
        return None

    if watcher_on:
        mon.register_callback(TOOL, mon.events.CALL, on_call)
        mon.set_events(TOOL, mon.events.CALL)

    try:
        histories(ctx, U, state, take_frame, diff_frame)
    finally:
        if watcher_on:
            mon.set_events(TOOL, 0)
            mon.register_callback(TOOL, mon.events.CALL, None)
            mon.free_tool_id(TOOL)
    ctx.count("watched_writes_on_new_nodes", state["new_writes"])
    if ctx.only_case is None:
        hash_churn(ctx, U)
    # ------------------------------------------------------------------ the repository's own tests under frame contracts
    if ctx.shard == 0 and ctx.only_case is None:
        repo_tests_under_contracts(ctx)


def hash_churn(ctx, U):
    """hash(node) is an observable of a node like its fields: it stays what it was while many other nodes are created,
    hashed, dropped and collected around it (addresses re-used) and large unrelated trees are worked on."""
    import gc

    P = U.P
    Leaf, Lst = U.cls[f"{P}Leaf"], U.cls[f"{P}List"]
    for rnd in range(3):
        tmp = [Leaf(v=i, s=f"churn{rnd}") for i in range(700)]
        for x in tmp:
            hash(x)
        del tmp, x
        gc.collect()
        keep = [Leaf(v=10000 + i, s=f"keep{rnd}") for i in range(400)]
        h0 = [hash(x) for x in keep]
        big = Lst(items=tuple(Leaf(v=20000 + i, s=f"big{rnd}") for i in range(1300)))
        big.to_tree()
        for x in big.dfs():
            hash(x.node)
        _ = big == big.duplicate(), {n_ for n_ in big.items}
        ctx.evaluations += 1
        ctx.count("hash_churn_rounds")
        changed = sum(1 for x, h in zip(keep, h0) if hash(x) != h)
        if changed:
            ctx.violation("hash-changed", f"hash() of {changed} pre-existing nodes changed while unrelated nodes were created, hashed and collected", {"round": rnd})
            return
        del keep, big


def histories(ctx, U, state, take_frame, diff_frame):
    from pyoak import config
    from pyoak.error import InvalidTypes
    from pyoak.match.pattern import NodeMatcher
    from pyoak.match.xpath import ASTXpath
    from pyoak.node import AST_SERIALIZE_DIALECT_KEY, NODE_REGISTRY, ASTNode, ASTSerializationDialects
    from pyoak.origin import SOURCE_OPTIMIZED_SERIALIZATION_KEY
    from pyoak.serialize import SerializationOption
    from pyoak.tree import Tree
    from pyoak.visitor import ASTTransformVisitor, ASTVisitor

    P = U.P
    for case in ctx.cases(ctx.params["histories"]):
        rng = ctx.rng(case)
        handles = []
        log = []
        tg = G.TreeGen(rng, U, max_nodes=12, max_depth=5, max_width=4, share=0.1, twin=0.3, p_origin=0.5, hostile=0.05)
        spec_of = {}
        for _ in range(3):
            sp_ = tg.tree()
            handles.append(build(U, sp_))
            spec_of[id(handles[-1])] = sp_
        if case % 3 == 1:
            # a node whose class derives a child of its own (init=False) in __post_init__: a transform that changes only that
            # child cannot rebuild the parent (dataclasses.replace refuses init=False fields) - and must not write into it
            if f"{P}Derived" not in U.module.__dict__:
                src = (
                    f"@dataclass(frozen=True)\nclass {P}Derived({P}Expr):\n    v: int = 0\n    shadow: {P}Expr | None = field(default=None, init=False)\n\n"
                    f"    def __post_init__(self):\n        object.__setattr__(self, 'shadow', {P}Leaf(v=self.v, s='derived'))\n        super().__post_init__()\n"
                )
                exec(compile(src, "<c10 derived>", "exec", dont_inherit=True), U.module.__dict__)
                from vlib.universe import CS, FS

                U.specs[f"{P}Derived"] = CS(f"{P}Derived", (f"{P}Expr",), [FS("v", "prop", "int", "int", default="0"), FS("shadow", "child", f"{P}Expr | None", "opt", (f"{P}Expr",), init=False, default="None")])
                U.cls[f"{P}Derived"] = U.module.__dict__[f"{P}Derived"]
            handles.append(U.cls[f"{P}List"](items=(U.module.__dict__[f"{P}Derived"](v=case), U.cls[f"{P}Leaf"](v=case + 1))))
            ctx.count("init_false_child_fields")
        if case % 3 == 0:
            # a property typed Any that holds nested mutable containers (the node owns them)
            handles.append(U.cls[f"{P}List"](items=(U.cls[f"{P}Handle"](name="h", symbol={"b": {3, 1, 2}, "a": [2, 1], "c": {"z": 1, "y": {9, 8}}}), U.cls[f"{P}Leaf"](v=case))))
            ctx.count("mutable_container_in_property")
        fp = G.shape_fingerprint(U, tg.tree())

        def nodes():
            return list(reachable(U, handles).values())

        def op_traverse():
            n = rng.choice(handles)
            pr = lambda i: rng.random() < 0.2  # noqa: E731
            fl = lambda i: rng.random() < 0.7  # noqa: E731
            list(n.dfs(prune=pr, filter=fl))
            list(n.dfs(bottom_up=True, filter=fl))
            list(n.bfs(prune=pr))
            list(n.gather((U.cls[f"{P}Leaf"], U.cls[f"{P}Bin"]), extra_filter=fl))
            _ = n.children, list(n.get_properties(False, False, False, sort_keys=True)), list(n.iter_child_fields()), n.to_properties_dict(), list(n.get_child_nodes_with_field(sort_keys=True))

        def op_tree():
            n = rng.choice(handles)
            objs = list(reachable(U, [n]).values())
            if len({id(o) for o in objs}) != len(objs):
                return
            try:
                t = Tree(n)
            except Exception:  # noqa: BLE001
                return
            for x in objs[:6]:
                try:
                    t.get_parent_info(x), list(t.get_ancestors(x)), t.get_depth(x), t.get_xpath(x), t.is_ancestor(x, n), t.get_first_ancestor_of_type(x, U.cls[f"{P}Expr"])
                except KeyError:
                    pass

        def op_xpath():
            n = rng.choice(handles)
            for text in (f"//{P}Leaf", f"/{P}Bin/@left", f"//@items[1]{P}Expr", f"//{P}Un//{P}Leaf", "@child " + f"{P}Expr"):
                try:
                    # compiled once per process and used again on whatever root comes next
                    xp = COMPILED_XPATHS.get(text)
                    if xp is None:
                        xp = COMPILED_XPATHS[text] = ASTXpath(text)
                    else:
                        ctx.count("compiled_xpath_reused")
                    got = list(xp.findall(n))
                    n.find(text)
                    for g in got[:2]:
                        try:
                            xp.match(n, g)
                        except ValueError:
                            pass
                except Exception:  # noqa: BLE001
                    pass

        def op_pattern():
            n = rng.choice(nodes())
            for text in (f"({P}Leaf @v -> a @s -> b)", f"(* @items=[(*) -> x * -> rest] -> all)", f"({P}Bin @left=({P}Expr) -> l @right -> r)", f'({P}Leaf|{P}Un @v="1.*")', f"({P}Call @args=[$q] @fn -> q)"):
                m, _ = NodeMatcher.from_pattern(text)
                if m is not None:
                    try:
                        m.match(n)
                    except Exception:  # noqa: BLE001
                        pass

        def op_visit():
            n = rng.choice(handles)
            raising = rng.random() < 0.4

            class V(ASTVisitor):
                def generic_visit(self, node):
                    for c in node.get_child_nodes():
                        self.visit(c)
                    return 1

            V().visit(n)
            target = rng.choice([f"{P}Leaf", f"{P}Un", f"{P}Name", f"{P}List"])
            action = rng.choice(["rewrite", "remove", "fresh", "unwrap", "unwrap", "rebuild_equal", "rebuild_equal"])

            def rule(self_, node):
                if raising and rng.random() < 0.5:
                    raise Boom()
                if action == "rewrite":
                    g = ASTTransformVisitor.generic_visit(self_, node)
                    return dataclasses.replace(g, origin=O.build_origin(("gen", 2)))
                if action == "remove":
                    return None
                if action == "rebuild_equal":
                    # a normaliser that always rebuilds the node, even when nothing changes
                    ctx.count("transform_rebuilds_equal_node")
                    return dataclasses.replace(node)
                if action == "unwrap":
                    # hand back an already existing node (the first child) in place of its parent
                    kids = list(node.get_child_nodes())
                    if kids:
                        ctx.count("transform_returns_existing_node")
                        return kids[0]
                    return node
                return U.cls[f"{P}Leaf"](v=4242)

            if action == "unwrap":
                # a class that really occurs below n with a child; half of the time on a purpose-built tree whose
                # wrapper carries an origin while the wrapped node has none
                if rng.random() < 0.5:
                    inner = U.cls[f"{P}Leaf"](v=rng.randrange(100))
                    wrapper = U.cls[f"{P}Un"](child=inner, origin=O.build_origin(("code", 0, 1, 4)))
                    n = U.cls[f"{P}List"](items=(wrapper, U.cls[f"{P}Leaf"](v=1)), origin=O.build_origin(("gen", 1)))
                    handles.append(n)
                    state["pre"] = set(take_frame(U, handles))
                    snap_extra.update(take_frame(U, [n]))
                    target = f"{P}Un"
                else:
                    withkids = [type(x).__name__ for x in reachable(U, [n]).values() if x is not n and list(x.get_child_nodes())]
                    target = rng.choice(withkids) if withkids else f"{P}Un"
            TV = type("TV", (ASTTransformVisitor,), {f"visit_{target}": rule})
            try:
                r = TV().transform(n)
                if r is not None and r is not n and rng.random() < 0.3:
                    handles.append(r)
            except Boom:
                ctx.count("raising_ops")

        def op_duplicate():
            handles.append(rng.choice(nodes()).duplicate())

        def op_replace_ok():
            n = rng.choice(nodes())
            pf = [f for f in U.prop_fields(type(n).__name__) if f.init]
            ch = {"origin": O.build_origin(O.gen_origin(rng))}
            if pf and rng.random() < 0.6:
                f = rng.choice(pf)
                ch = {f.name: G.gen_value(rng, U, f, hostile=0.0)}
            def swappable(x):
                return [f for f in U.child_fields(type(x).__name__) if f.shape in ("one", "opt", "tuple") and f.init]

            withkids = [x for x in nodes() if swappable(x) and list(x.get_child_nodes())]
            if withkids and rng.random() < 0.4:
                # replace() of an inner node with a child field among the changes (what a transform via
                # node.replace(**changes) does): the kept children and the swapped-out child stay registered
                n = rng.choice(withkids)
                f = rng.choice(swappable(n))
                cur = getattr(n, f.name)
                Leaf = U.cls[f"{P}Leaf"]
                fits = any(issubclass(Leaf, U.cls[t]) for t in f.types if t in U.cls)
                fresh = Leaf(v=rng.randrange(10**6), s="swapped-in") if fits else None
                if f.shape == "tuple":
                    cur = tuple(cur)
                    val = (cur[1:] + (fresh,) if rng.random() < 0.5 else (fresh,) + cur) if fits else tuple(reversed(cur))
                else:
                    val = fresh if fits else cur
                ch = {f.name: val}
                ctx.count("replace_with_child_field_changes")
            state["exempt"] = {id(n)}
            state["membership_may_change"] = False
            handles.append(n.replace(**ch) if rng.random() < 0.6 else dataclasses.replace(n, **ch))

        def op_replace_fail():
            ns = nodes()
            # prefer a collision twin (id with suffix) whose elder twin is gone: a re-registration that recomputes ids would show
            suff = [x for x in ns if "_" in x.id and ASTNode.get_any(x.id.rsplit("_", 1)[0]) is None]
            n = rng.choice(suff) if suff and rng.random() < 0.7 else rng.choice(ns)
            if "_" in n.id and ASTNode.get_any(n.id.rsplit("_", 1)[0]) is None:
                ctx.count("failing_replace_on_suffix_twin")
            how = rng.choice(["TypeError", "ValueError", "InvalidTypes"])
            state["membership_may_change"] = False  # a failing replace puts the receiver back
            try:
                if how == "TypeError":
                    n.replace(no_such_field=1)
                elif how == "ValueError":
                    n.replace(content_id="x")
                else:
                    was_tc = config.RUNTIME_TYPE_CHECK
                    config.RUNTIME_TYPE_CHECK = True
                    try:
                        n.replace(origin=5)
                    finally:
                        config.RUNTIME_TYPE_CHECK = was_tc
            except (TypeError, ValueError, InvalidTypes):
                ctx.count("raising_ops")

        def op_detach():
            n = rng.choice(nodes())
            state["membership_may_change"] = False
            if rng.random() < 0.5:
                state["exempt"] = set(id(x) for x in reachable(U, [n]).values())
                n.detach()
            else:
                state["exempt"] = {id(n)}
                n.detach_self()

        def op_twins():
            # elder twin + younger twin, then the elder is detached: the younger keeps its suffix id
            a = U.cls[f"{P}Leaf"](v=77, s="tw")
            b = U.cls[f"{P}Leaf"](v=77, s="tw")
            handles.append(b)
            state["membership_may_change"] = False
            a.detach_self()

        def op_serialize():
            n = rng.choice(handles)
            opts = {}
            if rng.random() < 0.3:
                opts[SerializationOption.SORT_KEYS] = True
            if rng.random() < 0.2:
                opts[AST_SERIALIZE_DIALECT_KEY] = rng.choice(list(ASTSerializationDialects))
            skip_class_alive = not opts and rng.random() < 0.25
            if skip_class_alive:
                # tag-less payload read back (with the same option) while every serialized node is alive and registered
                opts[SerializationOption.SKIP_CLASS] = True
                ctx.count("tagless_payload_read_while_alive")
            fmt = rng.choice(["dict", "json", "msgpck", "yaml"])
            so = dict(opts) or None
            C = type(n)
            mode = rng.choice(["alive", "alive", "detached", "subtree-detached"])
            if fmt == "dict":
                payload = n.as_dict(serialization_options=so)
            elif fmt == "json":
                payload = n.to_json(serialization_options=so)
            elif fmt == "msgpck":
                payload = n.to_msgpck(serialization_options=so)
            else:
                payload = n.to_yaml(serialization_options=so)
            if opts.get(AST_SERIALIZE_DIALECT_KEY) is not None:
                return
            if skip_class_alive:
                mode = "alive"
            plain = n.as_dict() if fmt == "dict" else None
            state["membership_may_change"] = mode != "alive"
            if mode == "detached":
                n.detach_self()  # the root is rebuilt, its children are registry hits
            elif mode == "subtree-detached":
                n.detach()
            else:
                ctx.count("deserialize_registry_hits")
            if mode == "detached" and list(n.get_child_nodes()):
                ctx.count("deserialize_registry_hits")
            try:
                if fmt == "dict":
                    r = C.as_obj(payload, serialization_options=so if skip_class_alive else None)
                elif fmt == "json":
                    r = C.from_json(payload, serialization_options=so if skip_class_alive else None)
                elif fmt == "msgpck":
                    r = C.from_msgpck(payload, serialization_options=so if skip_class_alive else None)
                else:
                    r = C.from_yaml(payload, serialization_options=so if skip_class_alive else None)
                if r is not n:
                    handles.append(r)
            except Exception:  # noqa: BLE001
                ctx.count("raising_ops")

        def op_compare():
            ns = nodes()
            a, b = rng.choice(ns), rng.choice(ns)
            try:
                _ = a == b, a != b, hash(a), a.is_equal(b), a == 5, repr(a)[:10], str(a.origin)
            except ValueError:
                pass

        def op_rich():
            from rich.console import Console

            with open(os.devnull, "w") as f:
                Console(file=f, width=100).print(rng.choice(handles))

        pickles = []

        def op_copy():
            # the copy / pickle protocols applied to nodes: whatever they return, existing nodes stay as they are
            import copy
            import pickle

            n = rng.choice(nodes())
            how = rng.choice(["copy", "deepcopy", "pickle", "stale_pickle", "deepcopy_parent_of_detached"])
            ctx.count("copy_protocol_ops")
            if how == "copy":
                copy.copy(n)
            elif how == "deepcopy":
                copy.deepcopy(n)
            elif how == "pickle":
                pickles.append(pickle.dumps(n))
                pickle.loads(pickles[-1])
            elif how == "stale_pickle" and pickles:
                pickle.loads(rng.choice(pickles))
            else:
                h = rng.choice(handles)
                kids = h.children
                if kids:
                    k = rng.choice(kids)
                    snap_extra[id(k)] = (k, tuple((f.name, getattr(k, f.name), None) for f in dataclasses.fields(k)), k.id, k.content_id, hash(k))
                    state["exempt"] = {id(k)}
                    k.detach_self()
                copy.deepcopy(h)

        def op_origin_algebra():
            # the origins owned by nodes are used as operands of the origin algebra (first operand included)
            from pyoak.origin import concat_origins, merge_origins

            ns = [x for x in nodes()]
            a, b, c = (rng.choice(ns).origin for _ in range(3))
            ctx.count("origin_algebra_on_node_origins")
            concat_origins(a, b, c), merge_origins(a, b), a + b, concat_origins(a, O.build_origin(("code", 0, 1, 3)))

        def op_compare_twins_with_distinct_origin_objects():
            n = rng.choice(handles)
            twin = build(U, spec_of[id(n)], origin_fn=lambda sp: O.build_origin(sp.origin, src=O.fresh_source)) if id(n) in spec_of else n.duplicate()
            handles.append(twin)
            snap_extra.update(take_frame(U, [twin]))
            ctx.count("comparisons_with_equal_but_distinct_origin_objects")
            _ = n == twin, twin == n, n in [twin], [twin].index(n) if n == twin else None

        def op_list_valued():
            # a list handed in for a tuple field is accepted while type checks are off; the node exists like any other
            ks = [k for k in rng.sample(nodes(), min(3, len(nodes()))) if isinstance(k, U.cls[f"{P}Expr"])]
            if ks and config.RUNTIME_TYPE_CHECK is False:
                handles.append(U.cls[f"{P}Call"](args=list(ks), kwargs=list(ks[:1])))
                ctx.count("list_valued_tuple_fields")

        def op_config():
            # a configuration switch between creation and later use of the nodes (existing nodes keep their ids)
            config.ID_DIGEST_SIZE = rng.choice([s_ for s_ in (4, 8, 16) if s_ != config.ID_DIGEST_SIZE])
            ctx.count("digest_size_switches")

        def op_load_dump_of_younger_twin():
            # a dump written elsewhere, in which the tree was the younger of two equal trees (ids with suffix _1), is read
            # here; then equal trees are built: the loaded nodes keep their ids and their places in the registry
            cands = [h for h in handles if id(h) in spec_of and "_" not in h.id]
            if not cands:
                return
            n = rng.choice(cands)
            sp_ = spec_of[id(n)]
            payload = n.as_dict()

            def suffix(d):
                if isinstance(d, dict):
                    if isinstance(d.get("id"), str) and "content_id" in d and "_" not in d["id"]:
                        d["id"] = d["id"] + "_1"
                    for v in d.values():
                        suffix(v)
                elif isinstance(d, list):
                    for v in d:
                        suffix(v)

            suffix(payload)
            C = type(n)
            objs = list(reachable(U, [n]).values())
            if len({o.id for o in objs}) != len(objs) or any("_" in o.id for o in objs):
                return  # (a forged suffix would run into the ids of twins inside the tree)
            n.detach()
            handles[:] = [h for h in handles if h is not n]
            del objs
            try:
                r = C.as_obj(payload)
            except Exception:  # noqa: BLE001
                return
            loaded = list(reachable(U, [r]).values())
            handles.append(r)
            ctx.count("dump_of_younger_twin_loaded")
            was_member = {id(x) for x in loaded if ASTNode.get_any(x.id) is x}  # (a forged id may name a live twin: then that tree came back)
            fresh = [build(U, sp_), build(U, sp_)]
            lost = [type(x).__name__ for x in loaded if id(x) in was_member and ASTNode.get_any(x.id) is not x]
            if lost and __import__("os").environ.get("VERIF_DEBUG"):
                print("DEBUG", str(payload)[:600], [(type(x).__name__, x.id, type(ASTNode.get_any(x.id)).__name__, getattr(ASTNode.get_any(x.id), "id", None)) for x in loaded], [[y.id for y in reachable(U, [f_]).values()] for f_ in fresh], config.ID_DIGEST_SIZE, file=__import__("sys").stderr)
            if lost:
                ctx.violation("frame", f"building equal trees next to a tree loaded from a dump (ids with collision suffix) took {len(lost)} loaded node(s) out of the registry", {"classes": sorted(set(lost))[:5]})
            for f_ in fresh:
                f_.detach()

        def op_replace_fails_in_user_post_init():
            # the user's class validates in its own __post_init__ after the base class's (the new node is registered by then)
            # and refuses: the receiver is back in the registry, also once the refused node is gone
            name = f"{P}Validated"
            if name not in U.module.__dict__:
                src = (
                    f"@dataclass(frozen=True)\nclass {name}({P}Expr):\n    v: int = 0\n    note: str = field(default='', compare=False)\n    kid: {P}Expr | None = None\n\n"
                    f"    def __post_init__(self):\n        super().__post_init__()\n        if self.note == 'bad' or self.v < 0:\n            raise ValueError('refused by the model')\n"
                )
                exec(compile(src, "<c10 validated>", "exec", dont_inherit=True), U.module.__dict__)
                from vlib.universe import CS, FS

                U.specs[name] = CS(name, (f"{P}Expr",), [FS("v", "prop", "int", "int", default="0"), FS("note", "prop", "str", "str", compare=False, default="''"), FS("kid", "child", f"{P}Expr | None", "opt", (f"{P}Expr",), default="None")])
                U.cls[name] = U.module.__dict__[name]
            C_ = U.module.__dict__[name]
            n = C_(v=rng.randrange(1000), note="ok", kid=U.cls[f"{P}Leaf"](v=rng.randrange(1000)))
            handles.append(n)
            ctx.count("replace_refused_by_user_post_init")
            for ch in ({"note": "bad"}, {"v": -1}, {"note": "bad", "origin": O.build_origin(("gen", 1))}):
                try:
                    n.replace(**ch)
                except ValueError:
                    pass
                import gc as _gc

                _gc.collect()
                if ASTNode.get_any(n.id) is not n:
                    ctx.violation("frame", "a replace() refused by the model's own __post_init__ (after the base class's) left the receiver out of the registry", {"changes": sorted(ch)})
                    break

        redef = {}

        def op_construct_redefined_class():
            # a node class defined a second time under the same name (a re-run model cell) while a node of the first
            # definition is alive: constructing the equal node of the new class is a construction like any other
            if "a" not in redef:
                return
            old_c, new_c, leaf_c = redef["classes"]
            a = redef["a"]
            ctx.count("equal_node_of_redefined_class_constructed")
            b = new_c(first=a.first, v=a.v, origin=a.origin)
            redef.setdefault("made", []).append(b)
            del redef["made"][:-3]

        def op_tiny_digest():
            # ids one byte wide: nodes of different classes run into each other's ids
            was = config.ID_DIGEST_SIZE
            config.ID_DIGEST_SIZE = 1
            try:
                made = []
                for i in range(60):
                    c = rng.choice([f"{P}Leaf", f"{P}Name", f"{P}Un", f"{P}List"])
                    if c == f"{P}Leaf":
                        made.append(U.cls[c](v=i))
                    elif c == f"{P}Name":
                        made.append(U.cls[c](tag=f"n{i}", v=i))
                    elif c == f"{P}Un":
                        made.append(U.cls[c](child=made[-1] if made and isinstance(made[-1], U.cls[f"{P}Expr"]) else U.cls[f"{P}Leaf"](v=-i)))
                    else:
                        made.append(U.cls[c](origin=O.build_origin(("gen", i % 3)), label=str(i)))
                ctx.count("one_byte_ids")
                handles.extend(made[:2])
            finally:
                config.ID_DIGEST_SIZE = was

        ops = [op_replace_fails_in_user_post_init, op_load_dump_of_younger_twin, op_construct_redefined_class, op_tiny_digest, op_config, op_copy, op_list_valued, op_origin_algebra, op_compare_twins_with_distinct_origin_objects, op_traverse, op_tree, op_xpath, op_pattern, op_visit, op_duplicate, op_replace_ok, op_replace_fail, op_detach, op_twins, op_serialize, op_serialize, op_compare, op_rich]
        snap_extra = {}
        if case % 2 == 0:
            from vlib.universe import remodelled_class

            REDEF_COUNTER[0] += 1
            redef["classes"] = remodelled_class(U, f"C10n{REDEF_COUNTER[0]}")
            redef["a"] = redef["classes"][0](first=redef["classes"][2](v=case), v=case % 5, origin=O.build_origin(O.gen_origin(rng)))
        for step in range(ctx.params["ops"]):
            op = rng.choice(ops)
            snap_extra.clear()
            snap = take_frame(U, handles)
            state["pre"] = set(snap)
            # registry membership of every pre-existing node: only detach / replace (and the harness' own detaching) may change it
            # (the ops narrow this themselves: exempt = the nodes whose membership the operation is specified to change)
            state["membership_may_change"] = op.__name__ in ("op_detach", "op_replace_ok", "op_replace_fail", "op_twins", "op_load_dump_of_younger_twin", "op_replace_fails_in_user_post_init")
            state["exempt"] = set()
            member = {k: (ASTNode.get_any(v[0].id) is v[0]) for k, v in snap.items()}
            del state["hits"][:]
            raised = None
            try:
                op()
            except Exception as e:  # noqa: BLE001
                raised = f"{type(e).__name__}: {e}"[:120]
                ctx.count("raising_ops")
            state["pre"] = set()
            ctx.evaluations += 1
            ctx.count("ops")
            ctx.count("frames_checked")
            log.append((op.__name__, raised))
            if len(snap) >= 2:
                ctx.fp((op.__name__, fp))
            if case == 0 and step < 3 and ctx.shard == 0:
                ctx.sample({"operation": op.__name__, "pre_existing_nodes": len(snap), "raised": raised})
            snap.update(snap_extra)
            d = diff_frame(snap)
            if not d and not state["membership_may_change"] and (raised is None or op.__name__ == "op_replace_fail"):
                ctx.count("registry_membership_checked")
                if state["exempt"]:
                    ctx.count("membership_checked_around_detach_or_replace")
                lost = [type(v[0]).__name__ for k, v in snap.items() if k not in state["exempt"] and member.get(k) and ASTNode.get_any(v[0].id) is not v[0]]
                if lost:
                    d = f"{len(lost)} pre-existing node(s) ({', '.join(sorted(set(lost))[:4])}) are no longer returned by lookup under their id, although the operation is not specified to change their registry membership"
            if d:
                ctx.violation("frame", f"{op.__name__} modified a pre-existing node: {d}", {"operation": op.__name__, "raised": raised, "log": log[-10:]})
                break
            if state["hits"]:
                # a write that leaves every value as it was is not a change: recorded as an observation only
                ctx.count("writes_to_existing_nodes_without_change", len(state["hits"]))
                obs = ctx.extra.setdefault("writer_locations_on_existing_nodes", [])
                for h in sorted(set(state["hits"])):
                    if list(h) not in obs and len(obs) < 10:
                        obs.append(list(h))
            del snap
            if len(handles) > 14:
                del handles[: len(handles) - 10]
        handles.clear()
        config.ID_DIGEST_SIZE = 8


def repo_tests_under_contracts(ctx):
    here = os.path.dirname(os.path.dirname(os.path.abspath(__file__)))
    src = os.environ.get("PYOAK_SRC", "/repo/src")
    repo = os.path.dirname(os.path.abspath(src))
    out = os.path.join(os.getcwd(), "c10_contracts.json")
    env = dict(os.environ)
    env["PYTHONPATH"] = os.pathsep.join([src, here, os.path.join(here, ".deps")])
    env["VERIF_CONTRACT_OUT"] = out
    p = subprocess.run(
        [sys.executable, "-m", "pytest", "-q", "-p", "no:cacheprovider", "-p", "plugins.frame_contracts", "-x", "-W", "ignore", "tests"],
        cwd=repo, env=env, capture_output=True, text=True, timeout=900,
    )
    try:
        res = json.load(open(out))
    except Exception:  # noqa: BLE001
        raise RuntimeError("contract run produced no result: " + (p.stdout + p.stderr)[-1500:])
    ctx.count("repo_tests_contract_evaluations", res["evaluations"])
    ctx.evaluations += res["evaluations"]
    ctx.extra["repo_tests"] = {"summary": (p.stdout.strip().splitlines() or ["?"])[-1], "evaluations_per_function": res["per_function"]}
    ctx.extra["repo_tests"]["slot_checks"] = res.get("slot_checks", 0)
    for v in res["violations"][:5]:
        if v.get("kind") == "slots":
            continue  # C16's subject (its check runs the same plugin)
        ctx.violation("frame-in-repo-tests", "a frame contract fired while the repository's own tests ran: " + v["what"], v)
    if p.returncode != 0 and not res["violations"]:
        raise RuntimeError("the repository's tests failed under the (passive) contracts: " + (p.stdout + p.stderr)[-1500:])
