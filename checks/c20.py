"""C20 — legacy traversal and legacy XPath follow the same semantics as their successors.

REF: the C05 reference walker (with the start node included unless skip_self) and
the C07 reference evaluator are applied to attached legacy trees (tuple and list
child fields); calculate_xpath is compared with paths spelled from the spec.
"""
from __future__ import annotations

import itertools
import sys
from collections import deque

from vlib import gen as G
from vlib import refxpath as RX
from vlib.legacy import build_legacy
from vlib.legacy_universe import legacy_universe
from vlib.spec import S, Pos, child_slots, preorder, spec_json

LEVEL = "exploration"
RULE = (
    "attached legacy trees over a universe with required, optional, tuple and list child fields (tuples up to 15); for "
    "small trees all (prune, filter) subsets of nodes x skip_self x {dfs, dfs bottom-up, bfs} are enumerated, larger trees "
    "get random subsets; gather over class subsets x exact_type x extra filter x prune x skip_self; legacy ASTXpath.match "
    "for every node x generated xpaths (as C07, indices up to 14); malformed xpath texts; calculate_xpath on roots and "
    "non-roots; non-trivial = tree with >= 3 nodes; distinct = distinct (tree fingerprint, predicate sets / xpath text)"
)
ASSUMPTIONS = ["predicates are pure functions of the offered node"]
REUSED_XPATHS: dict = {}
MUST_SEE = ["compiled_xpath_reused_on_another_tree", "children_lists_mutated_by_caller", "falsy_callable_predicates", "abandoned_traversals", "xpath_after_class_redefinition", "skip_self_with_prune", "start_pruned", "prune_not_filter_with_desc", "list_fields", "index_ge_10_match", "xpath_nonempty", "malformed_rejected", "calculate_xpath_nodes", "gather_calls", "two_anywhere_left_steps", "recalculated_after_change"]
CONFIG = {
    "quick": {"shards": 16, "small_trees": 200, "exh_n": 4, "large_trees": 60, "xpaths": 40, "watchdog_s": 600},
    "thorough": {"shards": 32, "small_trees": 300, "exh_n": 6, "large_trees": 150, "xpaths": 100, "watchdog_s": 3400},
}


def run_shard(ctx):
    sys.setrecursionlimit(20000)
    import warnings

    warnings.simplefilter("ignore", DeprecationWarning)
    from pyoak.legacy.match.error import ASTXpathDefinitionError
    from pyoak.legacy.match.xpath import ASTXpath
    from pyoak.legacy.node import AwareASTNode

    U = legacy_universe(runtime_only=(ctx.shard % 2 == 0))
    P = U.P
    classes = dict(U.cls)
    classes["AwareASTNode"] = AwareASTNode
    class_names = list(U.order) + ["AwareASTNode"]
    field_names = sorted({f.name for c in U.order for f in U.child_fields(c)})
    n_small, n_large, exh_n = ctx.params["small_trees"], ctx.params["large_trees"], ctx.params["exh_n"]

    for case in ctx.cases(n_small + n_large + 1):
        rng = ctx.rng(case)
        small = case < n_small
        if case == n_small + n_large:
            kids = tuple(S(rng.choice([f"{P}Leaf", f"{P}Name", f"{P}Leaf2"]), {"v": i}) for i in range(270))
            lst = tuple(S(f"{P}Un", {}, {"child": S(f"{P}Leaf", {"v": j})}) for j in range(12))
            s = S(f"{P}Call", {}, {"args": kids, "kwargs": lst, "fn": S(f"{P}Lst", {}, {"elems": (S(f"{P}Leaf"), S(f"{P}Leaf2")), "opt": S(f"{P}Leaf", {"v": 5})})})
        else:
            tg = G.TreeGen(rng, U, max_nodes=(exh_n + 1) if small else 30, max_depth=4 if small else 6, max_width=3 if small else 11, share=0.0, twin=0.2, p_origin=0.1, hostile=0.0)
            s = tg.tree()
        memo = {}
        root = build_legacy(U, s, memo)
        pos = preorder(U, s)
        n = len(pos)
        if small and n > exh_n:
            small = False
        obj = {id(p): memo[id(p.spec)] for p in pos}
        nodes = [obj[id(p)] for p in pos]
        idx_of = {id(o): i for i, o in enumerate(nodes)}
        by_parent = {}
        for q in pos:
            if q.parent is not None:
                by_parent.setdefault(id(q.parent), []).append(q)
        kids_of = lambda p: by_parent.get(id(p), [])  # noqa: E731
        root_pos = pos[0]
        fp = G.shape_fingerprint(U, s)
        if any(isinstance(getattr(o, f.name), list) and getattr(o, f.name) for o in nodes for f in U.child_fields(type(o).__name__)):
            ctx.count("list_fields")
        if case < 1 and ctx.shard == 0:
            ctx.sample({"tree": spec_json(s)})

        def bad(mech, what, **d):
            d["tree"] = spec_json(s)
            ctx.violation(mech, what, d)

        if case % 2 == 0:
            # the caller does what it likes with the lists `children` hands out: nothing the library answers later depends on them
            for o in nodes:
                ch = o.children
                if isinstance(ch, list):
                    ch.reverse()
                    del ch[: (len(ch) + 1) // 2]  # (nothing is added: a library that did depend on the list must not be sent into a cycle)
            ctx.count("children_lists_mutated_by_caller")

        # ---------------------------------------------------------------- reference walkers (start included unless skipped)
        def ref(kind, pruned, skip_self):
            visited = []
            if kind == "bfs":
                q = deque([root_pos])
                while q:
                    p = q.popleft()
                    if p is root_pos and skip_self:
                        q.extend(kids_of(p))
                        continue
                    visited.append(p)
                    if not pruned(p):
                        q.extend(kids_of(p))
                return visited, visited
            pre, post = [], []
            stack = [(root_pos, False)]
            while stack:
                p, done = stack.pop()
                offered = not (p is root_pos and skip_self)
                if done:
                    if offered:
                        post.append(p)
                    continue
                if offered:
                    pre.append(p)
                stack.append((p, True))
                if not offered or not pruned(p):
                    for c in reversed(kids_of(p)):
                        stack.append((c, False))
            return pre, post

        def pred_sets():
            ids = [id(o) for o in nodes]
            if small:
                subsets = []
                for r in range(len(ids) + 1):
                    subsets.extend(itertools.combinations(ids, r))
                for pr in subsets:
                    for fl in subsets:
                        yield frozenset(pr), frozenset(fl)
            else:
                yield frozenset(), frozenset(ids)
                for dp in (0.0, 0.25, 0.5, 1.0):
                    for df in (0.0, 0.5, 1.0):
                        yield frozenset(i for i in ids if rng.random() < dp), frozenset(i for i in ids if rng.random() < df)
                yield frozenset([id(root)]), frozenset(ids)

        for pr, fl in pred_sets():
            flog, plog = [], []

            def f_filter(nd, _fl=fl):
                flog.append(id(nd))
                return id(nd) in _fl

            def f_prune(nd, _pr=pr):
                plog.append(id(nd))
                return id(nd) in _pr

            if rng.random() < 0.25:
                from checks.c05 import FalsyCallable  # predicates as callable objects that are falsy in a boolean context

                f_filter, f_prune = FalsyCallable(f_filter), FalsyCallable(f_prune)
                ctx.count("falsy_callable_predicates")
            pruned = lambda p, _pr=pr: id(obj[id(p)]) in _pr  # noqa: E731
            keep = lambda p, _fl=fl: id(obj[id(p)]) in _fl  # noqa: E731
            for skip_self in (False, True):
                positional = rng.random() < 0.3  # the documented parameter order, given by position
                pre, post = ref("dfs", pruned, skip_self)
                lvl, _ = ref("bfs", pruned, skip_self)
                if skip_self and pr:
                    ctx.count("skip_self_with_prune")
                if not skip_self and id(root) in pr:
                    ctx.count("start_pruned")
                if any(pruned(p) and not keep(p) and kids_of(p) for p in pre):
                    ctx.count("prune_not_filter_with_desc")
                for kind, exp_vis, exp_order, call in (
                    ("dfs", pre, pre, (lambda: root.dfs(f_prune, f_filter, False, skip_self)) if positional else (lambda: root.dfs(prune=f_prune, filter=f_filter, skip_self=skip_self))),
                    ("dfs_bottom_up", pre, post, (lambda: root.dfs(f_prune, f_filter, True, skip_self)) if positional else (lambda: root.dfs(prune=f_prune, filter=f_filter, bottom_up=True, skip_self=skip_self))),
                    ("bfs", lvl, lvl, (lambda: root.bfs(f_prune, f_filter, skip_self)) if positional else (lambda: root.bfs(prune=f_prune, filter=f_filter, skip_self=skip_self))),
                ):
                    del flog[:], plog[:]
                    ctx.evaluations += 1
                    got = [id(x) for x in call()]
                    exp = [id(obj[id(p)]) for p in exp_order if keep(p)]
                    if n >= 3:
                        ctx.fp((fp, kind, skip_self, tuple(sorted(idx_of[i] for i in pr)), tuple(sorted(idx_of[i] for i in fl))))
                    d = dict(kind=kind, skip_self=skip_self, prune=sorted(idx_of[i] for i in pr), filter=sorted(idx_of[i] for i in fl))
                    if got != exp:
                        bad(f"legacy-{kind}-stream", f"legacy {kind} yielded a different stream than the reference walker", got=[idx_of.get(i, "?") for i in got], expected=[idx_of[i] for i in exp], **d)
                        continue
                    vis = sorted(id(obj[id(p)]) for p in exp_vis)
                    if sorted(flog) != vis:
                        bad(f"legacy-{kind}-filter-log", "filter was not offered exactly the visited nodes", offered=len(flog), visited=len(vis), **d)
                    if sorted(plog) != vis:
                        bad(f"legacy-{kind}-prune-log", "prune was not offered exactly the visited nodes", offered=len(plog), visited=len(vis), **d)
            if small and n > 3 and rng.random() > 0.06:
                continue
            # gather
            for _ in range(3):
                cns = tuple(rng.sample(sorted({type(o).__name__ for o in nodes}) + [f"{P}Node", f"{P}Leaf"], rng.randint(1, 2)))
                clss = tuple(U.cls[c] for c in cns)
                exact = rng.random() < 0.5
                use_extra, use_prune, skip_self = rng.random() < 0.5, rng.random() < 0.7, rng.random() < 0.5
                pre, _ = ref("dfs", pruned if use_prune else (lambda p: False), skip_self)
                del flog[:], plog[:]
                got = [id(x) for x in root.gather(clss if len(clss) > 1 or rng.random() < 0.5 else clss[0], exact_type=exact, extra_filter=f_filter if use_extra else None, prune=f_prune if use_prune else None, skip_self=skip_self)]

                def cls_ok(o):
                    return (type(o) in clss) if exact else isinstance(o, clss)

                exp = [id(obj[id(p)]) for p in pre if cls_ok(obj[id(p)]) and (not use_extra or keep(p))]
                ctx.evaluations += 1
                ctx.count("gather_calls")
                if got != exp:
                    bad("legacy-gather", "legacy gather differs from the filtered pre-order stream", classes=cns, exact=exact, extra=use_extra, prune=sorted(idx_of[i] for i in pr) if use_prune else None, filter=sorted(idx_of[i] for i in fl) if use_extra else None, skip_self=skip_self, got=[idx_of.get(i, "?") for i in got], expected=[idx_of[i] for i in exp])

        # ---------------------------------------------------------------- abandoned, nested and interleaved traversals
        if n >= 3:
            nothing = lambda p: False  # noqa: E731
            pre0, post0 = ref("dfs", nothing, False)
            lvl0, _ = ref("bfs", nothing, False)
            exp_pre, exp_post, exp_lvl = ([id(obj[id(p)]) for p in x] for x in (pre0, post0, lvl0))
            it1, it2, it3 = root.dfs(), root.gather(type(nodes[-1])), root.bfs()
            next(it1, None), next(it1, None), next(it2, None), next(it3, None)  # left half-consumed
            ctx.count("abandoned_traversals")
            outer = []
            for a in root.dfs():
                outer.append(id(a))
                if len(outer) <= 3:
                    list(itertools.islice(a.dfs(bottom_up=True), 2))  # a traversal started (and abandoned) inside another one's loop
                    list(a.bfs())
            z = list(zip(root.dfs(), root.dfs(bottom_up=True), root.bfs()))
            ctx.evaluations += 3
            if outer != exp_pre:
                bad("legacy-dfs-stream", "legacy dfs with other traversals started inside its loop yielded a different stream", got=[idx_of.get(i, "?") for i in outer], expected=[idx_of[i] for i in exp_pre], kind="nested")
            elif [id(x[0]) for x in z] != exp_pre or [id(x[1]) for x in z] != exp_post or [id(x[2]) for x in z] != exp_lvl:
                bad("legacy-dfs-stream", "interleaved legacy traversals (zip of dfs, bottom-up dfs, bfs) yielded different streams than alone", kind="zipped")
            elif [id(x) for x in root.dfs()] != exp_pre or [id(x) for x in root.dfs(bottom_up=True)] != exp_post or [id(x) for x in root.bfs()] != exp_lvl:
                bad("legacy-dfs-stream", "a legacy traversal after abandoned ones yielded a different stream", kind="after-abandoned")
            del it1, it2, it3
        # ---------------------------------------------------------------- legacy xpath
        def cls_choices(p):
            return [c.__name__ for c in type(obj[id(p)]).__mro__ if c.__name__ in classes]

        for k in range(ctx.params["xpaths"] if not small else 6):
            path = RX.gen_path(rng, pos, field_names, class_names, cls_choices)
            relative = path[0][0] and rng.random() < 0.5
            text = RX.render(path, relative=relative)
            exp = RX.ref_eval(path, root_pos, kids_of, lambda p: obj[id(p)], classes)
            exp_ids = sorted(id(obj[id(p)]) for p in exp)
            ctx.evaluations += 1
            try:
                xp = ASTXpath(text)
            except Exception as e:  # noqa: BLE001
                bad("legacy-xpath-compile", f"grammar-derived xpath rejected: {type(e).__name__}: {e}"[:200], xpath=text)
                continue
            if len(REUSED_XPATHS) < 25 and exp and text not in REUSED_XPATHS:
                REUSED_XPATHS[text] = (path, xp)
            got_ids = sorted(id(o) for o in nodes if xp.match(o))
            if got_ids != exp_ids:
                bad("legacy-xpath-match", "legacy ASTXpath.match differs from the documented semantics", xpath=text, ast=path, match=[idx_of[i] for i in got_ids], expected=[idx_of[i] for i in exp_ids])
            if exp:
                ctx.count("xpath_nonempty")
                ctx.fp((fp, text))
                if any(st[2] not in (None, "any") and st[2] >= 10 for st in path):
                    ctx.count("index_ge_10_match")
                anyw = [i for i, st in enumerate(path) if st[0]]
                if anyw and max(anyw) >= 2:
                    ctx.count("two_anywhere_left_steps")
        # compiled xpath objects kept from earlier trees are asked about this tree too (ids recur between trees)
        for text, (path, xp) in list(REUSED_XPATHS.items())[:25]:
            exp_ids = sorted(id(obj[id(p)]) for p in RX.ref_eval(path, root_pos, kids_of, lambda p: obj[id(p)], classes))
            ctx.evaluations += 1
            ctx.count("compiled_xpath_reused_on_another_tree")
            got_ids = sorted(id(o) for o in nodes if xp.match(o))
            if got_ids != exp_ids:
                bad("legacy-xpath-match", "a compiled legacy ASTXpath used before on other trees differs from the documented semantics on this one", xpath=text, ast=path, match=[idx_of[i] for i in got_ids], expected=[idx_of[i] for i in exp_ids])
                break
        # malformed texts
        for text in ("", "/", "//", f"/{P}Leaf[", f"/@/{P}Leaf", "/NoSuchClass", "/CodeOrigin", f"{P}Leaf/", f"/{P}Leaf/@", "[1]", f"/{P}Leaf]", "/ASTNode", f"/({P}Leaf)", f"/{P}Leaf/[x]{P}Leaf"):
            ctx.evaluations += 1
            try:
                ASTXpath(text)
                r = "accepted"
            except ASTXpathDefinitionError:
                r = "definition-error"
                ctx.count("malformed_rejected")
            except Exception as e:  # noqa: BLE001
                r = f"{type(e).__name__}: {e}"[:200]
            if r not in ("definition-error",):
                bad("legacy-xpath-malformed", "malformed legacy xpath text was not rejected with the definition error", xpath=text, got=r)
        # ---------------------------------------------------------------- calculate_xpath
        def spelled(p):
            segs = [f"/@root[0]{type(root).__name__}"]
            chain = []
            q = p
            while q.parent is not None:
                chain.append(q)
                q = q.parent
            for q in reversed(chain):
                segs.append(f"/@{q.field}[{q.index or 0}]{type(obj[id(q)]).__name__}")
            return "".join(segs)

        non_root = nodes[-1] if n > 1 else None
        if non_root is not None:
            before = [o.xpath for o in nodes]
            if non_root.calculate_xpath() is not False or [o.xpath for o in nodes] != before:
                bad("legacy-calculate-xpath", "calculate_xpath on a non-root returned True or changed paths")
        if root.calculate_xpath() is not True:
            bad("legacy-calculate-xpath", "calculate_xpath on an attached root did not return True")
        for p in pos:
            ctx.count("calculate_xpath_nodes")
            if obj[id(p)].xpath != spelled(p):
                bad("legacy-calculate-xpath", "calculated xpath differs from the chain of fields, indices and classes", got=obj[id(p)].xpath, expected=spelled(p))
                break
        # structural change below unchanged ancestors, then recalculation: every node's path must be current
        deep = [o for o in nodes if o.parent is not None and o.parent.parent is not None]
        if deep:
            victim = rng.choice(deep)
            par = victim.parent
            fdef = next(f for f in U.child_fields(type(par).__name__) if f.name == victim.parent_field.name)
            try:
                if fdef.shape in ("tuple", "list") and rng.random() < 0.5:
                    victim.replace_with(None)
                    how = "removed a sequence element"
                else:
                    props = [f for f in U.prop_fields(type(victim).__name__)]
                    if props:
                        victim.replace(**{props[0].name: (12345 if props[0].shape == "int" else "chg")})
                        how = "replaced a node"
                    else:
                        how = None
            except Exception:  # noqa: BLE001
                how = None
            if how:
                ctx.count("recalculated_after_change")
                root.calculate_xpath()
                from vlib.legacy import struct_children

                stack = [(root, f"/@root[0]{type(root).__name__}")]
                while stack:
                    x, px = stack.pop()
                    if x.xpath != px:
                        bad("legacy-calculate-xpath", f"after a structural change ({how}) and recalculation a node keeps a stale / missing xpath", got=x.xpath, expected=px)
                        break
                    for fn, ix, c in struct_children(U, x):
                        stack.append((c, px + f"/@{fn}[{ix or 0}]{type(c).__name__}"))
        root.detach()

    # ---- a class redefined under its name: an xpath compiled afterwards denotes the class that now bears the name ----
    from vlib import origins as O

    NO = O.build_origin(("no",))
    src = f"@dataclass\nclass {P}Redef({P}Node):\n    v: int = 0\n"
    texts = [f"//{P}Redef", f"/{P}Redef"]
    for gen_no in range(3):
        exec(compile(src, f"<c20 redef {gen_no}>", "exec", dont_inherit=True), U.module.__dict__)
        cur = U.module.__dict__[f"{P}Redef"]
        node = cur(v=gen_no, origin=NO)
        ctx.count("xpath_after_class_redefinition")
        for text in texts:
            ctx.evaluations += 1
            try:
                ok = ASTXpath(text).match(node)
            except Exception as e:  # noqa: BLE001
                ok = f"{type(e).__name__}: {e}"[:100]
            if ok is not True:
                ctx.violation("legacy-xpath-redefined-class", "an xpath compiled after a class was redefined does not match an instance of the class now bearing the name", {"xpath": text, "generation": gen_no, "got": ok})
        node.detach()
