"""C11 — every field annotation is soundly classified as child, property, or rejected.

REF over generated programs: annotations are ASTs (vlib.anngrammar), rendered into
class definitions (single / inherited / overriding a property / overriding a child;
plain, postponed, whole-string and nested-string forward-reference spellings) and
exec-ed; the observed outcome is compared with a reference classifier.
"""
from __future__ import annotations

import __future__
import sys
import traceback

from vlib import anngrammar as AG
from vlib.universe import Universe

LEVEL = "exploration"
TYPECHECK_OK = True  # the default values used for first instantiation conform to the annotations: some shards run with RUNTIME_TYPE_CHECK on
RULE = (
    "programs = (annotation AST, layout, spelling): depth-1 annotations (atoms and every unary/binary constructor over "
    "atoms) are enumerated completely in both tiers, depth-2 (constructors over depth-1) sampled in quick and enumerated "
    "in thorough, depth-3 sampled; layouts: single class, init=False field, field with compare/repr/kw_only/hash flags, inherited field, override of a property field, override of a "
    "child field; spellings: plain, `from __future__ import annotations`, whole-annotation string, nested string forward "
    "reference; forward references to a class defined later in the module; non-trivial = annotation with at least one "
    "constructor; distinct = distinct (annotation source, layout, spelling)"
)
ASSUMPTIONS = [
    "an exception raised by mashumaro's code generator while the class is being defined means the class cannot exist: no verdict (counted)",
    "first use = first instantiation, performed after all classes of the module (incl. forward-referenced ones) are defined",
]
MUST_SEE = ["directed_depth3_annotations", "base_used_before_subclass", "same_name_in_another_module", "none_default_fields", "init_false_fields", "reject_at_first_use", "reject_at_definition", "override_changes_category", "newtype_node_in_tuple", "none_annotation", "child_verdicts", "prop_verdicts", "forward_refs", "postponed", "inherited", "reuse_after_rejection"]
CONFIG = {
    "quick": {"shards": 16, "d2_sample": 200, "d3_sample": 40, "layouts_per_ann": 3, "watchdog_s": 600},
    "thorough": {"shards": 32, "d2_sample": -1, "d3_sample": 2000, "layouts_per_ann": 99, "watchdog_s": 3400},
}

LAYOUTS = ["single", "inherit", "override_prop", "override_child", "noninit", "flags", "none_default", "override_none_default", "multi_base_empty", "self_ref", "plain_mixin_after_base"]


def spellings_for(a):
    sp = ["plain", "postponed", "wholestr"]
    if AG.has_fwd(a):
        sp = ["postponed", "wholestr"]
        if not AG.pipe_with_quoted(a):
            sp.append("nestedstr")
    return sp


def class_sources(P, k, a, layout, spelling):
    """Returns list of (class name, source, is_target)."""
    if spelling == "wholestr":
        ann = repr(AG.render(a, P))
    elif spelling == "nestedstr":
        ann = AG.render(a, P, quote_fwd=True)
    else:
        ann = AG.render(a, P)
    T = f"{P}T{k}"
    B = f"{P}B{k}"
    dflt = AG.default_src(a)
    deco = "@dataclass(frozen=True)\n"
    if layout == "single":
        return [(T, f"{deco}class {T}(ASTNode):\n    x: {ann} = {dflt}\n    y: int = 0\n", True)]
    if layout == "noninit":
        # a field that is not a constructor argument is classified (and validated) like any other
        return [(T, f"{deco}class {T}(ASTNode):\n    y: int = 0\n    x: {ann} = field(default={dflt}, init=False)\n", True)]
    if layout == "flags":
        return [(T, f"{deco}class {T}(ASTNode):\n    y: int = 0\n    x: {ann} = field(default={dflt}, compare=False, repr=False, kw_only=True, hash=False)\n", True)]
    if layout == "self_ref":
        # the class refers to itself in another field (quoted): its annotations cannot be checked at definition time
        return [(T, f"{deco}class {T}(ASTNode):\n    x: {ann} = {dflt}\n    nxt: '{T} | None' = None\n    y: int = 0\n", True)]
    if layout == "plain_mixin_after_base":
        # the field comes from a plain (non-node) dataclass mixin listed after the node base: its fields are the first
        # fields of the class, before the built-in ones
        M = f"{P}M{k}"
        return [
            (M, f"{deco}class {M}:\n    x: {ann} = {dflt}\n    w: int = 0\n", False),
            (T, f"{deco}class {T}(ASTNode, {M}):\n    y: int = 0\n", True),
        ]
    if layout == "multi_base_empty":
        # the field comes from the *second* base of a class that declares nothing itself
        B2 = f"{P}C{k}"
        return [
            (B, f"{deco}class {B}(ASTNode):\n    x: {ann} = {dflt}\n", False),
            (B2, f"{deco}class {B2}(ASTNode):\n    y: int = 0\n", False),
            (T, f"{deco}class {T}({B2}, {B}):\n    pass\n", True),
        ]
    if layout == "none_default":
        # a default value (here None, whatever the annotation) is no part of the annotation
        return [(T, f"{deco}class {T}(ASTNode):\n    y: int = 0\n    x: {ann} = None\n", True)]
    if layout == "override_none_default":
        return [
            (B, f"{deco}class {B}(ASTNode):\n    y: int = 0\n    x: {ann} = {dflt}\n", False),
            (T, f"{deco}class {T}({B}):\n    x: {ann} = field(default=None)\n", True),
        ]
    if layout == "inherit":
        return [
            (B, f"{deco}class {B}(ASTNode):\n    x: {ann} = {dflt}\n", False),
            (T, f"{deco}class {T}({B}):\n    y: int = 0\n", True),
        ]
    if layout == "override_prop":
        return [
            (B, f"{deco}class {B}(ASTNode):\n    x: int = 0\n    y: int = 0\n", False),
            (T, f"{deco}class {T}({B}):\n    x: {ann} = {dflt}\n", True),
        ]
    if layout == "override_child":
        return [
            (B, f"{deco}class {B}(ASTNode):\n    y: int = 0\n    x: {P}N0 | None = None\n", False),
            (T, f"{deco}class {T}({B}):\n    x: {ann} = {dflt}\n", True),
        ]
    raise ValueError(layout)


def from_mashumaro(tb: str) -> bool:
    return "/mashumaro/" in tb


def run_batch(ctx, P, items, postponed_module: bool):
    """items: list of (k, ast, layout, spelling). All classes are defined first, then the
    forward-referenced class, then every class is used for the first time."""
    from pyoak.error import InvalidFieldAnnotations, InvalidTypes

    # another module of the "application" declares a *node class* that bears the name of this module's enum
    other = Universe(f"verif_c11_other_{P}", [], prelude_extra=f"@dataclass(frozen=True)\nclass {P}Color(ASTNode):\n    name: str = ''\n")
    other.exec()
    ctx.count("same_name_in_another_module")
    U = Universe(f"verif_c11_{P}", [], prelude_extra=AG.PRELUDE.replace("{P}", P))
    U.exec()
    ns = U.module.__dict__
    flags = __future__.annotations.compiler_flag if postponed_module else 0
    defined = []
    for k, a, layout, spelling in items:
        srcs = class_sources(P, k, a, layout, spelling)
        outcome = None
        for cname, src, is_target in srcs:
            try:
                code = compile(src, f"<c11 {cname}>", "exec", flags=flags, dont_inherit=True)
                exec(code, ns)
            except InvalidFieldAnnotations as e:
                outcome = ("def-reject", [n for n, _, _ in e.invalid_annotations], cname)
                break
            except Exception as e:  # noqa: BLE001
                tb = traceback.format_exc()
                outcome = ("def-mashumaro" if from_mashumaro(tb) else "def-other", f"{type(e).__name__}: {e}"[:300], cname, tb[-700:])
                break
        defined.append((k, a, layout, spelling, srcs, outcome))
    exec(compile(AG.POSTLUDE.replace("{P}", P), "<c11 postlude>", "exec", flags=flags, dont_inherit=True), ns)

    for k, a, layout, spelling, srcs, outcome in defined:
        verdict = AG.classify(a)
        T = srcs[-1][0]
        src_text = "".join(s for _, s, _ in srcs)
        ann_src = AG.render(a, "")
        detail = {"annotation": ann_src, "ast": a, "layout": layout, "spelling": spelling, "postponed_module": postponed_module, "source": src_text.replace(P, ""), "expected": verdict}
        ctx.evaluations += 1
        if len(list(AG.walk(a))) > 1:
            ctx.fp((ann_src, layout, spelling, postponed_module))
        if AG.has_fwd(a):
            ctx.count("forward_refs")
        if postponed_module:
            ctx.count("postponed")
        if layout == "inherit":
            ctx.count("inherited")
        if layout == "noninit":
            ctx.count("init_false_fields")
        if layout in ("none_default", "override_none_default"):
            ctx.count("none_default_fields")
        if a == ("none",):
            ctx.count("none_annotation")
        if a[0] in ("tvar", "tfix") and any(x == ("nt", "NTnode") for x in AG.walk(a)):
            ctx.count("newtype_node_in_tuple")
        if layout == "override_prop" and verdict == "CHILD" or layout == "override_child" and verdict == "PROP":
            ctx.count("override_changes_category")

        def mech(base):
            if AG.nested_nt(a):
                return "nested-newtype"
            if spelling == "nestedstr":
                return "nested-forward-ref-plain"
            return base

        if outcome is not None:
            kind = outcome[0]
            if kind == "def-mashumaro":
                ctx.count("no_verdict_mashumaro_definition")
                ex = ctx.extra.setdefault("mashumaro_no_verdict_examples", [])
                if len(ex) < 6 and ann_src not in [e[0] for e in ex]:
                    ex.append((ann_src, spelling, outcome[1][:120]))
                continue
            if kind == "def-other":
                ctx.violation(mech("definition-raised-other"), "class definition raised something other than InvalidFieldAnnotations", dict(detail, error=outcome[1], tb=outcome[3]))
                continue
            # def-reject
            ctx.count("reject_at_definition")
            if verdict != "REJECT":
                ctx.violation(mech("valid-annotation-rejected"), f"a {verdict} annotation was rejected at definition", dict(detail, fields=outcome[1]))
            elif "x" not in outcome[1]:
                ctx.violation(mech("reject-wrong-field"), "InvalidFieldAnnotations does not name the field", dict(detail, fields=outcome[1]))
            continue
        C = ns[T]
        if layout in ("override_prop", "override_child", "override_none_default", "inherit", "multi_base_empty") and (k % 2 == 0):
            # history: the base class is classified (used) before the subclass that inherits / overrides its field
            try:
                ns[srcs[0][0]].get_child_fields()
                list(ns[srcs[0][0]].get_property_fields())
                ctx.count("base_used_before_subclass")
            except Exception:  # noqa: BLE001 - the base's own annotations may be the rejected ones (layout 'inherit')
                pass
        try:
            if layout in ("none_default", "override_none_default"):
                C.get_child_fields()  # first use without an instance (None is not a value of every annotation)
            else:
                C()
            inst = "ok"
        except InvalidTypes:
            # shards running with RUNTIME_TYPE_CHECK on: the default value does not conform to the annotation; the class
            # was classified (and accepted) before its values were looked at, which is all that matters here
            ctx.count("classified_with_type_checks_on")
            inst = "ok"
        except InvalidFieldAnnotations as e:
            inst = ("reject", [n for n, _, _ in e.invalid_annotations])
        except Exception as e:  # noqa: BLE001
            inst = ("other", f"{type(e).__name__}: {e}"[:300], traceback.format_exc()[-700:])
        if inst != "ok":
            if inst[0] == "other":
                ctx.violation(mech("first-use-raised-other"), "first instantiation raised something other than InvalidFieldAnnotations", dict(detail, error=inst[1], tb=inst[2]))
                continue
            ctx.count("reject_at_first_use")
            # the rejection is not a one-off: every later use is rejected as well (nothing half-classified stays cached)
            again = []
            for use in (lambda: C(), lambda: C.get_child_fields(), lambda: list(C.get_property_fields()), lambda: C()):
                try:
                    use()
                    again.append("ok")
                except InvalidFieldAnnotations:
                    again.append("reject")
                except Exception as e2:  # noqa: BLE001
                    again.append(type(e2).__name__)
            ctx.count("reuse_after_rejection")
            if verdict == "REJECT" and any(a != "reject" for a in again):
                ctx.violation(mech("accepted-after-rejection"), "a class rejected at first use is accepted (or fails differently) when used again", dict(detail, later_uses=again))
            if verdict != "REJECT":
                ctx.violation(mech("valid-annotation-rejected"), f"a {verdict} annotation was rejected at first use", dict(detail, fields=inst[1]))
            elif "x" not in inst[1]:
                ctx.violation(mech("reject-wrong-field"), "InvalidFieldAnnotations does not name the field", dict(detail, fields=inst[1]))
            continue
        # accepted
        try:
            childs = [f.name for f in C.get_child_fields()]
            props = [f.name for f in C.get_property_fields(False, False, False, False, False)]
        except Exception as e:  # noqa: BLE001
            ctx.violation(mech("accessor-raised"), f"get_child_fields/get_property_fields raised {type(e).__name__}: {e}", detail)
            continue
        import dataclasses

        allf = [f.name for f in dataclasses.fields(C)]
        if sorted(childs + props) != sorted(allf):
            ctx.violation(mech("partition"), "dataclass fields are not partitioned into children and properties", dict(detail, children=childs, props=props, fields=allf))
            continue
        got = "CHILD" if "x" in childs else "PROP"
        if verdict == "REJECT":
            ctx.violation(
                mech("node-hidden-in-property" if got == "PROP" else "invalid-accepted-as-child"),
                f"an annotation that must be rejected was silently accepted as {got}",
                detail,
            )
        elif got != verdict:
            ctx.violation(mech("wrong-category"), f"classified as {got}, expected {verdict}", detail)
        else:
            ctx.count("child_verdicts" if got == "CHILD" else "prop_verdicts")
            if "y" not in props or "id" not in props or "origin" not in props or "content_id" not in props:
                ctx.violation("partition", "base fields misclassified", dict(detail, props=props))


def run_shard(ctx):
    sys.setrecursionlimit(20000)
    d1 = AG.enum_d1()
    d2 = AG.enum_d2()
    work = []  # (ast, layout, spelling)
    rng = ctx.rng("plan")
    lp = ctx.params["layouts_per_ann"]
    # depth 1: complete, all layouts x spellings, split over shards
    idx = 0
    d1 = [a for a in d1 if not AG.pipe_unevaluable(a)]
    d2 = [a for a in d2 if not AG.pipe_unevaluable(a)]
    for a in d1:
        for layout in LAYOUTS:
            for sp in spellings_for(a):
                if idx % ctx.nshards == ctx.shard:
                    work.append((a, layout, sp))
                idx += 1
    # depth 2
    n2 = ctx.params["d2_sample"]
    mine = [a for i, a in enumerate(d2) if i % ctx.nshards == ctx.shard]
    if n2 >= 0:
        mine = rng.sample(mine, min(n2, len(mine)))
    for a in mine:
        combos = [(layout, sp) for layout in LAYOUTS for sp in spellings_for(a)]
        for layout, sp in (combos if lp >= len(combos) else rng.sample(combos, lp)):
            work.append((a, layout, sp))
    # depth 3, directed: something that must be rejected (a mutable container, a node, a tuple of nodes) two levels
    # below an immutable container, behind an optional / a union (complete family, split over the shards)
    inners = [("list", ("int",)), ("set", ("str",)), ("dict", ("str",), ("int",)), ("node", "N0"), ("tvar", ("node", "N0")), ("int",), ("fset", ("int",))]
    mids = [lambda x: ("opt", x, "pipe"), lambda x: ("opt", x, "typing"), lambda x: ("union", (x, ("int",)), "pipe"), lambda x: ("union", (("str",), x), "typing")]
    outers = [lambda x: ("tvar", x), lambda x: ("fset", x), lambda x: ("seq", x), lambda x: ("map", ("str",), x), lambda x: ("tfix", (("int",), x))]
    fam = [o(m(i)) for o in outers for m in mids for i in inners]
    for j, a in enumerate(fam):
        if j % ctx.nshards != ctx.shard or AG.pipe_unevaluable(a):
            continue
        combos = [(layout, sp) for layout in LAYOUTS for sp in spellings_for(a)]
        for layout, sp in rng.sample(combos, min(4, len(combos))):
            work.append((a, layout, sp))
            ctx.count("directed_depth3_annotations")
    for _ in range(ctx.params["d3_sample"]):
        a = AG.gen_random(rng, 3)
        if AG.pipe_unevaluable(a):
            continue
        combos = [(layout, sp) for layout in LAYOUTS for sp in spellings_for(a)]
        layout, sp = rng.choice(combos)
        work.append((a, layout, sp))
    ctx.extra["d1_total"] = len(d1)
    ctx.extra["d2_total"] = len(d2)
    if ctx.shard == 0:
        ctx.sample({"annotation": AG.render(work[5][0], ""), "layout": work[5][1], "spelling": work[5][2], "expected": AG.classify(work[5][0])})
        ctx.sample({"annotation": AG.render(work[-1][0], ""), "layout": work[-1][1], "spelling": work[-1][2], "expected": AG.classify(work[-1][0])})
    # batches: plain-module and postponed-module items separately
    B = 40
    for mode in (False, True):
        items = [(a, l, s) for a, l, s in work if (s == "postponed") == mode]
        for bi in range(0, len(items), B):
            P = f"K{ctx.shard}{'p' if mode else 'n'}{bi}_"
            batch = [(k, a, l, s) for k, (a, l, s) in enumerate(items[bi : bi + B])]
            ctx.case = (mode, bi)
            run_batch(ctx, P, batch, mode)
