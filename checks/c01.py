"""C01 — content_id / is_equal is exactly structural content equality.

REF + cross-process history: every built node is recorded as (canonical content
key computed from the *spec*, content_id observed). Two hash joins decide
key-equality <=> content_id-equality over all pairs of the shard's pool; the driver
repeats the join over all shards (different PYTHONHASHSEED, reversed field
declaration order in odd shards, different origins / registry states).
"""
from __future__ import annotations

import gc
import hashlib
import sys

from vlib import gen as G
from vlib import mutate as M
from vlib import origins as O
from vlib.spec import S, build, content_key, deep_copy, preorder, spec_json, effective_props, tv
from vlib.universe import core_universe

LEVEL = "exploration"
RULE = (
    "pools grown from seed trees by single edits (property value, value type only, tuple permutation/drop/duplicate, child "
    "moved between fields, sibling class with identical fields, origin, non-comparable value, frozenset insertion order, "
    "optional child toggled incl. falsy children, long strings differing after 50/200/2000 chars, swapped string "
    "properties, separator re-splits); every node of every tree is a pool member; all pairs of a pool are decided by two "
    "hash joins; a common pool (same specs in all shards) is joined across processes with different hash seeds, origins, "
    "registry states and reversed field declaration order; non-trivial = node with at least one property set or one "
    "child; distinct = distinct canonical keys"
)
ASSUMPTIONS = [
    "64-bit blake2b digests: an accidental collision among <= 1e6 nodes has probability < 1e-7, so a collision with different reference pre-images is reported",
    "floats 0.0/-0.0/NaN, user objects with custom __str__ and same-named Enum classes are outside the generator (don't-care)",
]
MUST_SEE = ["values_equal_to_defaults_built_at_run_time", "single_member_frozensets", "payload_legs", "failed_constructions", 
    "equal_key_pairs", "near_miss_same_class", "cross_process_keys", "separator_strings", "falsy_children", "tuple_perm",
    "class_swap", "lifetime_rechecks", "rebuild_legs", "is_equal_true", "is_equal_false", "same_named_class_probe",
]
CONFIG = {
    "quick": {"shards": 16, "seeds": 250, "variants": 14, "common": 60, "watchdog_s": 300},
    "thorough": {"shards": 32, "seeds": 500, "variants": 20, "common": 200, "watchdog_s": 3000},
}


def canon_repr(x) -> str:
    if isinstance(x, frozenset):
        return "{" + ",".join(sorted(canon_repr(i) for i in x)) + "}"
    if isinstance(x, tuple):
        return "(" + ",".join(canon_repr(i) for i in x) + ")"
    return repr(x)


def key_hash(key) -> str:
    return hashlib.blake2b(canon_repr(key).encode("utf-8", "surrogatepass"), digest_size=10).hexdigest()


def ref_preimage(U, node) -> str:
    """The documented digest input, rebuilt independently (used only to *classify*
    collisions as separator injection, never to decide equality)."""
    cn = type(node).__name__
    out = cn
    for f in sorted(U.prop_fields(cn), key=lambda f: f.name):
        if f.compare:
            v = getattr(node, f.name)
            out += f":{f.name}={type(v)}({v!s})"
    for f in sorted(U.child_fields(cn), key=lambda f: f.name):
        v = getattr(node, f.name)
        if v is None:
            continue
        if isinstance(v, tuple):
            for i, c in enumerate(v):
                out += f":{f.name}[{i or -1}]={c.content_id}"
        else:
            out += f":{f.name}[-1]={v.content_id}"
    return out


def fset_sig(U, node) -> str:
    """str() of every frozenset-valued comparable property in the subtree."""
    out = []
    stack = [node]
    while stack:
        n = stack.pop()
        cn = type(n).__name__
        for f in U.prop_fields(cn):
            v = getattr(n, f.name)
            if f.compare and isinstance(v, frozenset):
                out.append(str(v))
        for f in U.child_fields(cn):
            v = getattr(n, f.name)
            if v is None:
                continue
            stack.extend(v if isinstance(v, tuple) else [v])
    return "|".join(out)


class Pool:
    def __init__(self, U):
        self.U = U
        self.entries = []  # (key, khash, node, cid_at_construction)
        self.by_key = {}
        self.by_cid = {}

    def add_tree(self, s, root, kmemo=None):
        U = self.U
        kmemo = {} if kmemo is None else kmemo
        for p in preorder(U, s):
            n = root
            for fn, ix in p.path:
                n = getattr(n, fn)
                if ix is not None:
                    n = n[ix]
            k = content_key(U, p.spec, kmemo)
            self.entries.append((k, n, n.content_id))
            self.by_key.setdefault(k, []).append(n)
            self.by_cid.setdefault(n.content_id, []).append((k, n))


def join(ctx, U, pool: Pool):
    """key-equality <=> content_id-equality for every pair of the pool."""
    for k, nodes in pool.by_key.items():
        cids = {n.content_id for n in nodes}
        if len(nodes) > 1:
            ctx.count("equal_key_pairs", len(nodes) - 1)
        if len(cids) > 1:
            # same content, different content_id
            byc = {}
            for n in nodes:
                byc.setdefault(n.content_id, n)
            ns = list(byc.values())
            sigs = {fset_sig(U, n) for n in ns}
            mech = "frozenset-order" if len(sigs) > 1 else "cid-split"
            ctx.violation(
                mech,
                "content-equal nodes have different content_ids",
                {"class": k[0], "content_ids": sorted(cids), "fset_strs": sorted(sigs)[:4], "key": canon_repr(k)[:600]},
            )
    for cid, lst in pool.by_cid.items():
        keys = {}
        for k, n in lst:
            keys.setdefault(k, n)
        if len(keys) > 1:
            ns = list(keys.values())
            pre = {ref_preimage(U, n) for n in ns}
            mech = "separator-injection" if len(pre) == 1 else "cid-collision"
            ctx.violation(
                mech,
                "nodes with different content share one content_id",
                {"content_id": cid, "keys": [canon_repr(k)[:400] for k in list(keys)[:3]], "preimages": sorted(pre)[:3]},
            )


def payload_legs(ctx, U, config, k):
    """Nodes re-created from a payload are nodes like any other: their content_id is the one a freshly built
    node with the same content gets in the current configuration (payload edited by hand; payload written
    under another ID_DIGEST_SIZE)."""
    P = U.P
    Leaf, Un = U.cls[f"{P}Leaf"], U.cls[f"{P}Un"]

    def mk(v):
        return Un(child=Leaf(v=v, s="p"), op="-")

    def export(v):
        n = mk(v)
        d = n.as_dict()
        n.child.detach()
        n.detach()
        return d

    def compare(m, what):
        fresh = mk(m.child.v)
        ctx.evaluations += 1
        ctx.count("payload_legs")
        if m.content_id != fresh.content_id or m.child.content_id != fresh.child.content_id or not m.is_equal(fresh) or not fresh.is_equal(m):
            ctx.violation("cid-of-deserialized-node", f"a node re-created from a payload ({what}) and a freshly built node with the same content have different content_id / are not is_equal", {"what": what, "payload_cid": m.content_id, "fresh_cid": fresh.content_id})
        for x in (m.child, m, fresh.child, fresh):
            x.detach()

    d = export(1000 + k)
    d["child"]["v"] = 2000 + k
    compare(Un.as_obj(d), "one property value edited in the payload")
    cur = config.ID_DIGEST_SIZE
    d = export(3000 + k)
    config.ID_DIGEST_SIZE = 16 if cur == 8 else 8
    try:
        compare(Un.as_obj(d), f"payload written with ID_DIGEST_SIZE={cur}, read with {config.ID_DIGEST_SIZE}")
    finally:
        config.ID_DIGEST_SIZE = cur


def failed_construction(ctx, U, k):
    """A construction that raises inside the library (ill-typed children, type check off) must leave nothing behind."""
    P = U.P
    L = U.cls[f"{P}Leaf"]
    good = L(v=k)
    mk = (
        lambda: U.cls[f"{P}List"](items=(good, None)),
        lambda: U.cls[f"{P}Call"](args=(good,), fn=good, kwargs=None),
        lambda: U.cls[f"{P}List"](items=(good, 5), root=good),
        lambda: U.cls[f"{P}Picky"](note="boom", child=good),
    )[k % 4]
    try:
        mk()
    except Exception:  # noqa: BLE001
        ctx.count("failed_constructions")
    good.detach()


def run_shard(ctx):
    sys.setrecursionlimit(20000)
    from pyoak import config
    from pyoak.node import NODE_REGISTRY, ASTNode

    variant = ctx.shard % 2  # odd shards declare fields in reversed order
    U = core_universe(variant=variant)
    P = U.P
    if variant == 0:
        Ugen = U
    else:
        # generate the common pool with variant 0's field order (same rng consumption in every shard)
        from vlib.universe import Universe, core_specs, CORE_PRELUDE

        Ugen = Universe("verif_universe_gen0", core_specs(P, 0), prelude_extra=CORE_PRELUDE.replace("{P}", P)).borrow(U)
        Ugen.P = P
    if ctx.shard % 4 >= 2:
        config.ID_DIGEST_SIZE = 16
    pool = Pool(U)
    from vlib.universe import warm_up

    ctx.extra["first_use_order"] = warm_up(U, ctx.rng("warm-up"), ctx)[:6]
    keep = []  # strong refs to roots

    # ---- common pool: identical specs in every shard (cross-process join) ----
    import random

    crng = random.Random(f"{ctx.seed}:C01:common")
    lrng = ctx.rng("local")
    common = []
    tg = G.TreeGen(crng, Ugen, max_nodes=14, max_depth=5, max_width=4, share=0.1, twin=0.2, p_origin=0.0, hostile=0.2)
    if ctx.only_case is None:
        for i in range(ctx.params["common"]):
            s = tg.tree()
            common.append(s)
            for _ in range(3):
                m = M.mutate(crng, Ugen, s)
                if m:
                    common.append(m[0])
        order = list(range(len(common)))
        if ctx.shard % 3 == 1:
            order.reverse()
        cmap = {}
        for i in order:
            s = common[i]
            root = build(U, s, origin_fn=(lambda sp: O.build_origin(O.gen_origin(lrng))) if ctx.shard % 2 else None)
            keep.append(root)
            kmemo = {}
            before = len(pool.entries)
            pool.add_tree(s, root, kmemo)
            for k, n, cid in pool.entries[before:]:
                cmap[key_hash(k)] = [cid, hashlib.blake2b(ref_preimage_stable(U, n).encode("utf-8", "surrogatepass"), digest_size=8).hexdigest(), hashlib.blake2b(fset_sig(U, n).encode(), digest_size=6).hexdigest()]
            if ctx.shard % 3 == 2:
                root.detach()
        ctx.extra["cmap"] = cmap
        ctx.extra["digest"] = config.ID_DIGEST_SIZE
        ctx.count("cross_process_keys", len(cmap))

    # ---- directed probes (known mechanisms are re-observed every run) ----
    for a, b in M.sep_injection_pairs(U):
        ra, rb = build(U, a), build(U, b)
        keep += [ra, rb]
        pool.add_tree(a, ra)
        pool.add_tree(b, rb)
        ctx.count("separator_strings", 2)
    fa = S(f"{P}Mix", {"fs": frozenset([8, 16, 0])})
    fb = S(f"{P}Mix", {"fs": frozenset([16, 8, 0])})
    for sp in (fa, fb):
        r = build(U, sp)
        keep.append(r)
        pool.add_tree(sp, r)
    # values equal to the declared defaults but built at run time (other objects), next to nodes left at their defaults
    from pathlib import Path as _Path

    for kw in ({}, {"big": int("4096"), "name": "-".join(["function", "local"]), "dims": tuple(x for x in [4, 4]), "where": _Path("a") / "b"}, {"big": int("4096")}, {"name": "".join(["function-", "local"])}, {"dims": tuple([4, 4])}):
        sp = S(f"{P}Defaults", dict(kw))
        r = build(U, sp)
        keep.append(r)
        pool.add_tree(sp, r)
        ctx.count("values_equal_to_defaults_built_at_run_time")
    # one-element frozensets (no iteration order to speak of) whose members / builtin hashes are look-alikes
    for val in (frozenset([-1]), frozenset([-2]), frozenset([0]), frozenset([2**61 - 1]), frozenset(["-1"]), frozenset([True]), frozenset([1]), frozenset([1.0]), frozenset()):
        sp = S(f"{P}Mix", {"fs": val})
        r = build(U, sp)
        keep.append(r)
        pool.add_tree(sp, r)
        ctx.count("single_member_frozensets")
    # the same class *name* defined twice in one module (redefinition while old instances survive):
    # two different classes -> is_equal must be False; their digests coincide because the digest
    # identifies the class by its name only (recorded mechanism 'same-named-classes')
    src = f"@dataclass(frozen=True)\nclass {P}Redef({P}Expr):\n    v: int = 0\n"
    exec(compile(src, "<c01 redef 1>", "exec", dont_inherit=True), U.module.__dict__)
    old_cls = U.module.__dict__[f"{P}Redef"]
    a_old = old_cls(v=5)
    exec(compile(src, "<c01 redef 2>", "exec", dont_inherit=True), U.module.__dict__)
    new_cls = U.module.__dict__[f"{P}Redef"]
    b_new = new_cls(v=5)
    keep += [a_old, b_new]
    ctx.evaluations += 1
    ctx.count("same_named_class_probe")
    if new_cls is not old_cls:
        if a_old.is_equal(b_new) or b_new.is_equal(a_old):
            ctx.violation("is_equal-across-classes", "is_equal is True for instances of two different classes (same name, class redefined)", {"class": f"{P}Redef"})
        if a_old.content_id == b_new.content_id:
            ctx.violation("same-named-classes", "instances of two different classes with the same name share one content_id", {"class": f"{P}Redef"})
    # falsy child present vs absent, element 0 of a tuple vs single child
    for sp in (
        S(f"{P}Slot", {}, {"child": S(f"{P}Falsy")}),
        S(f"{P}Slot", {}, {"child": None}),
        S(f"{P}Slot", {}, {"child": S(f"{P}FalsyB")}),
        S(f"{P}List", {}, {"items": (S(f"{P}Leaf"),)}),
        S(f"{P}List", {}, {"root": S(f"{P}Leaf")}),
        S(f"{P}List", {}, {"items": (S(f"{P}Leaf"), S(f"{P}Leaf"))}),
        S(f"{P}Call", {}, {"args": (S(f"{P}Leaf"),)}),
        S(f"{P}Call", {}, {"kwargs": (S(f"{P}Leaf"),)}),
        S(f"{P}Call", {}, {"fn": S(f"{P}Leaf")}),
    ):
        r = build(U, sp)
        keep.append(r)
        pool.add_tree(sp, r)
        ctx.count("falsy_children")

    # ---- mutation-grown pools ----
    for case in ctx.cases(ctx.params["seeds"]):
        rng = ctx.rng(case)
        tg = G.TreeGen(rng, U, max_nodes=rng.choice([3, 8, 20]), max_depth=5, max_width=4, share=0.1, twin=0.2, p_origin=0.3, hostile=0.25)
        s0 = tg.tree()
        fam = [(s0, "seed", False)]
        for _ in range(ctx.params["variants"]):
            base = rng.choice(fam)[0]
            m = M.mutate(rng, U, base)
            if m:
                fam.append(m)
                ctx.count(m[1])
        roots = []
        for s, kind, changed in fam:
            r = build(U, s)
            roots.append(r)
            keep.append(r)
            pool.add_tree(s, r)
            ctx.evaluations += 1
        k0 = content_key(U, s0)
        if case < 1 and ctx.shard == 0:
            ctx.sample({"seed_tree": spec_json(s0), "edits": [k for _, k, _ in fam[1:]]})
        # is_equal on the family (both directions) vs reference
        for i in range(len(fam)):
            for j in range(len(fam)):
                si, sj = fam[i][0], fam[j][0]
                exp = si.cls == sj.cls and content_key(U, si) == content_key(U, sj)
                got = roots[i].is_equal(roots[j])
                ctx.count("is_equal_true" if exp else "is_equal_false")
                if exp is False and si.cls == sj.cls:
                    ctx.count("near_miss_same_class")
                if got != exp:
                    mech = "is_equal"
                    if exp and fset_sig(U, roots[i]) != fset_sig(U, roots[j]):
                        mech = "frozenset-order"
                    elif not exp and ref_preimage(U, roots[i]) == ref_preimage(U, roots[j]):
                        mech = "separator-injection"
                    ctx.violation(mech, "is_equal disagrees with structural content equality", {"a": spec_json(si), "b": spec_json(sj), "got": got, "exp": exp})
        for r in roots[:2]:
            if r.is_equal(5) or r.is_equal(None) or r.is_equal("x"):
                ctx.violation("is_equal", "is_equal(non-node) is True", {})
        # metamorphic rebuild legs of the seed: other origins / non-comparable values / registry emptied or populated
        leg = case % 3
        if leg == 0:
            r2 = build(U, s0, origin_fn=lambda sp: O.build_origin(O.gen_origin(rng)))
        elif leg == 1:
            for r in roots:
                r.detach()
            r2 = build(U, s0)
        else:
            s1 = deep_copy(s0)
            for p in preorder(U, s1):
                if p.spec.cls == f"{P}Mix":
                    p.spec.props["nc"] = "other"
            r2 = build(U, s1)
        ctx.count("rebuild_legs")
        keep.append(r2)
        for p in preorder(U, s0):
            a, b = roots[0], r2
            for fn, ix in p.path:
                a = getattr(a, fn)
                b = getattr(b, fn)
                if ix is not None:
                    a, b = a[ix], b[ix]
            if a.content_id != b.content_id:
                ctx.violation(
                    "cid-depends-on-origin-or-registry",
                    "rebuilding the same content with other origins / non-comparable values / registry state changed content_id",
                    {"leg": leg, "tree": spec_json(s0), "path": list(p.path)},
                )
                break
        if case % 3 == 1:
            # failing construction, then the seed tree once more (same key => same content_id, checked by the join)
            failed_construction(ctx, U, case)
            r3 = build(U, s0)
            keep.append(r3)
            pool.add_tree(s0, r3)
        if case % 5 == 2:
            payload_legs(ctx, U, config, case)
        # operations that must not change any content_id
        if case % 4 == 0:
            r = roots[0]
            d = r.duplicate()
            keep.append(d)
            _ = r == d, hash(r), list(r.dfs()), r.as_dict()
            try:
                r.replace(origin=O.build_origin(("gen", 0)))
            except Exception:  # noqa: BLE001
                pass
            r.detach()
            type(r).as_obj(r.as_dict())
    join(ctx, U, pool)
    # distinct keys
    for k in pool.by_key:
        if k[1] or any(v is not None and v != ("T", ()) for _, v in k[2]):
            ctx.fp(key_hash(k))
    # lifetime constancy
    gc.collect()
    for k, n, cid0 in pool.entries:
        ctx.count("lifetime_rechecks")
        if n.content_id != cid0:
            ctx.violation("cid-changed", "content_id of a node changed during its lifetime", {"class": k[0], "was": cid0, "now": n.content_id})
            break
    config.ID_DIGEST_SIZE = 8


def ref_preimage_stable(U, node) -> str:
    return ref_preimage(U, node)


def merge(extras, counters):
    """Cross-process join of the common pool: one content_id per key per digest size,
    one key per content_id (modulo the classified mechanisms)."""
    out = []
    by_digest: dict[int, dict[str, dict]] = {}
    for e in extras:
        cm = e.get("cmap")
        if not cm:
            continue
        by_digest.setdefault(e.get("digest", 8), {})
        tgt = by_digest[e["digest"]]
        for kh, (cid, pre, fs) in cm.items():
            tgt.setdefault(kh, {}).setdefault(cid, (pre, fs))
    joins = 0
    for dg, m in by_digest.items():
        cid_to_keys: dict[str, dict[str, str]] = {}
        for kh, cids in m.items():
            joins += 1
            if len(cids) > 1:
                fss = {v[1] for v in cids.values()}
                out.append(
                    {
                        "mechanism": "frozenset-order" if len(fss) > 1 else "cid-differs-across-processes",
                        "what": "the same content built in different processes (hash seed / field order / origins / registry) got different content_ids",
                        "detail": {"key_hash": kh, "content_ids": sorted(cids), "digest_size": dg},
                        "case": None, "shard": -1, "seed": None, "tier": None,
                    }
                )
            for cid, (pre, fs) in cids.items():
                cid_to_keys.setdefault(cid, {})[kh] = pre
        for cid, ks in cid_to_keys.items():
            if len(ks) > 1:
                out.append(
                    {
                        "mechanism": "separator-injection" if len(set(ks.values())) == 1 else "cid-collision",
                        "what": "different contents share one content_id (cross-process join)",
                        "detail": {"content_id": cid, "key_hashes": sorted(ks)[:4], "digest_size": dg},
                        "case": None, "shard": -1, "seed": None, "tier": None,
                    }
                )
    counters["cross_process_joined_keys"] = joins
    return out
