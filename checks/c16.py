"""C16 — serialization options apply to the whole call and to nothing after it.

INV + fault enumeration: histories of (de)serialization calls with every option
subset; after every call — returned or raised — the two process-global slots must
be empty and an option-less probe serialization must equal the baseline. Faults are
enumerated: a raising property at each tree position, payload corruption at each
nested mapping, and an injected exception at the k-th statement executed inside
the callees (sys.monitoring LINE failpoints) for every k.
"""
from __future__ import annotations

import copy
import itertools
import json
import sys

from vlib import gen as G
from vlib import origins as O
from vlib.spec import S, build, preorder, spec_json, real_preorder
from vlib.universe import core_universe

LEVEL = "fault_enumeration"
RULE = (
    "histories of top-level calls (as_dict, as_obj, to_json, from_json, to_msgpck, from_msgpck, to_yaml, from_yaml) over "
    "generated trees with every subset of {skip-class, sort-keys, explorer / test dialect, index-based sources, mashumaro "
    "dialect}; fault sequences: (a) a property whose serializer raises placed at each position of the tree in turn, (b) the "
    "payload corrupted at each nested mapping in turn (missing key, wrong type, unknown type tag, bad source index), (c) an "
    "injected exception at the k-th line event inside _serialize/_deserialize/__post_serialize__/__post_init__ and the "
    "generated to_dict/from_dict code, for every k of an un-faulted run; after each call the slot invariant and a default "
    "probe are evaluated, and every nested mapping of a successful output is walked for the tag/sort/skip/explorer/index "
    "rules; non-trivial = call with at least one option or fault; distinct = distinct (tree fingerprint, call, options, fault)"
)
ASSUMPTIONS = [
    "failpoints are placed only in callee frames below as_dict/as_obj: no real exception can arise between the plain assignments at the top of these two functions",
    "the slots are read through their name-mangled class attributes",
]
TYPECHECK_OK = True  # every generated value conforms to its annotation: some shards run with RUNTIME_TYPE_CHECK on
MUST_SEE = ["source_index_zero_in_use", "falsy_origin_object", "origin_object_made_of_placeholders", "source_dump_loaded_before_calls", "tagless_payload_recreated", "flag_only_dialect", "equal_but_distinct_source_objects", "faults_outside_the_exception_tree", "indented_json_with_options", "option_spelled_false", "raised_with_options", "failpoints_fired", "failpoint_nested", "default_after_fault", "bomb_positions", "corrupt_payloads", "option_subsets", "mappings_walked", "explorer_children_checked", "index_sources_checked", "deser_with_options", "repo_tests_slot_checks", "shared_options_object"]
CONFIG = {
    "quick": {"shards": 16, "trees": 16, "subsets": 14, "failpoint_trees": 1, "watchdog_s": 600},
    "thorough": {"shards": 32, "trees": 40, "subsets": 48, "failpoint_trees": 4, "watchdog_s": 3400},
}

PRELUDE_BOMB = """
from mashumaro.types import SerializableType as _ST

class {P}Abort(BaseException):
    # an application's own way of unwinding (outside the Exception tree, like KeyboardInterrupt / SystemExit)
    pass

class {P}Bomb(_ST):
    def __init__(self, armed=False):
        self.armed = armed
    def _serialize(self):
        if self.armed == "abort":
            raise {P}Abort("bomb: the caller unwinds through the serializer")
        if self.armed == "interrupt":
            raise KeyboardInterrupt()
        if self.armed:
            raise RuntimeError("bomb: serialization of this property fails")
        return {{"bomb": False}}
    @classmethod
    def _deserialize(cls, value):
        if not isinstance(value, dict) or value.get("bomb"):
            raise RuntimeError("bomb: deserialization of this property fails")
        return cls(False)
    def __eq__(self, other):
        return isinstance(other, type(self))
    def __hash__(self):
        return 1
    def __str__(self):
        return "Bomb"

@dataclass(frozen=True)
class {P}Holder({P}Expr):
    b: {P}Bomb = field(default_factory={P}Bomb)
    child: {P}Expr | None = None
"""


class InjectedFault(Exception):
    pass


def slots_state():
    from pyoak.serialize import DataClassSerializeMixin as M

    return (M._DataClassSerializeMixin__serialization_options, M._DataClassSerializeMixin__mashumaro_dialect)


def run_shard(ctx):
    sys.setrecursionlimit(20000)
    from pyoak.node import AST_SERIALIZE_DIALECT_KEY, NODE_REGISTRY, ASTNode, ASTSerializationDialects
    from pyoak.origin import SOURCE_OPTIMIZED_SERIALIZATION_KEY, CodePoint, Origin, Position, Source
    from pyoak.serialize import TYPE_KEY, DataClassSerializeMixin, MessagePackDialect, OrjsonDialect, SerializationOption

    U = core_universe()
    P = U.P
    ns = U.module.__dict__
    if f"{P}Bomb" not in ns:
        exec(compile(PRELUDE_BOMB.replace("{P}", P), "<c16 bomb>", "exec", dont_inherit=True), ns)
    Holder, Bomb = ns[f"{P}Holder"], ns[f"{P}Bomb"]
    if ctx.shard % 4 == 2:
        # a new index-based dump starts from an empty source registry: the first source of the model gets index 0 (an index
        # like any other); in the other shards index 0 belongs to a source no tree refers to
        Source.clear_registry()
        O._SRC_CACHE.clear()
        ctx.count("source_index_zero_in_use")
    for i in range(O.N_SOURCES):
        O.source(i)

    probe = U.cls[f"{P}Bin"](
        left=U.cls[f"{P}Leaf"](v=1, s="p", origin=O.build_origin(("code", 0, 1, 4))),
        right=U.cls[f"{P}List"](items=(U.cls[f"{P}Leaf"](v=2),), origin=O.build_origin(("multi", (("gen", 1), ("xml", 2, "/a"))))),
    )
    baseline = json.dumps(probe.as_dict(), default=str)
    baseline_text = {fe: getattr(probe, fe)() for fe in ("to_yaml", "to_json", "to_msgpck")}

    def bad(mech, what, **d):
        ctx.violation(mech, what, d)

    def after_call(desc, raised):
        """(i) slot invariant, (ii) default probe"""
        so, md = slots_state()
        if so != {} or md is not None:
            bad("slots-dirty", "serialization options / dialect still set after a call", call=desc, raised=raised, options_slot=repr(so)[:200], dialect_slot=repr(md))
            # reset so that one defect does not mask the rest
            DataClassSerializeMixin._DataClassSerializeMixin__serialization_options = {}
            DataClassSerializeMixin._DataClassSerializeMixin__mashumaro_dialect = None
            return
        # the default output of every front-end, as text (key order included), is what it was before
        for fe in ("to_yaml", "to_json", "to_msgpck"):
            if fe in str(desc.get("call", "")) or raised:
                txt = getattr(probe, fe)()
                if txt != baseline_text[fe]:
                    bad("default-output-changed", f"a later {fe}() without options does not produce the default text", call=desc, raised=raised, now=repr(txt)[:200], default=repr(baseline_text[fe])[:200])
        now = json.dumps(probe.as_dict(), default=str)
        if now != baseline:
            bad("default-output-changed", "a later call without options does not produce the default output", call=desc, raised=raised, diff_at=next((i for i, (a, b) in enumerate(zip(now, baseline)) if a != b), None), now=now[:300])
        if raised:
            ctx.count("default_after_fault")

    # ------------------------------------------------------------------ shape walker
    def walk(obj, out, opts, path, call):
        """obj: real DataClassSerializeMixin instance; out: its serialized mapping"""
        ctx.count("mappings_walked")
        skip = opts.get(SerializationOption.SKIP_CLASS, False)
        sort = opts.get(SerializationOption.SORT_KEYS, False)
        dialect = opts.get(AST_SERIALIZE_DIALECT_KEY)
        idx = opts.get(SOURCE_OPTIMIZED_SERIALIZATION_KEY, False)
        if not isinstance(out, dict):
            bad("shape", "a serializable object was not serialized as a mapping", path=path, call=call)
            return
        tn = type(obj).__name__
        test_stub = dialect == ASTSerializationDialects.AST_TEST and path.endswith("origin.source")  # the test dialect stubs the source of every node's origin, NoSource included
        if isinstance(obj, Source) and ((tn != "NoSource" and idx) or test_stub):
            if dialect == ASTSerializationDialects.AST_TEST and path.endswith("origin.source"):
                keys = list(out)
                if skip and TYPE_KEY in out:
                    bad("sortkeys-or-skip-with-dialect", "test-dialect stub source carries a type tag although tags are suppressed", path=path, call=call, keys=keys)
                rest = [k for k in keys if k != TYPE_KEY]
                if {k: out[k] for k in rest} != {"source_type": "", "source_uri": ""}:
                    bad("test-dialect-stub", "the test dialect did not put the (empty) stub source into a node's origin", path=path, call=call, got=repr(out)[:120])
                if sort and (rest != sorted(rest) or (TYPE_KEY in out and keys[0] != TYPE_KEY)):
                    bad("sortkeys-or-skip-with-dialect", "test-dialect stub source keys are not sorted", path=path, call=call, keys=keys)
                return
            ctx.count("index_sources_checked")
            if out != {"idx": Source._sources[obj]}:
                bad("index-source", "source is not serialized as its index", path=path, call=call, got=repr(out)[:100])
            return
        if tn in ("NoOrigin", "NoSource", "NoPosition"):
            if dialect == ASTSerializationDialects.AST_TEST and tn == "NoOrigin" and path.endswith(".origin") and set(out) == {"source"}:
                # the test dialect replaces the source of every node's origin by a stub, also for NoOrigin
                return
            if out != {}:
                bad("shape", "No* placeholder is not the empty mapping", path=path, call=call, got=repr(out)[:100])
            return
        keys = list(out)
        if skip:
            if TYPE_KEY in out:
                bad("skip-class", "type tag present although suppressed", path=path, call=call, keys=keys)
        else:
            if out.get(TYPE_KEY) != tn:
                bad("type-tag", "type tag missing or wrong on a nested mapping", path=path, call=call, keys=keys, expected=tn)
        if sort:
            rest = [k for k in keys if k != TYPE_KEY]
            if (not skip and keys and keys[0] != TYPE_KEY) or rest != sorted(rest):
                unsorted = [k for k in rest if k == "_children"]
                mech = "sortkeys-or-skip-with-dialect" if dialect is not None and isinstance(obj, ASTNode) and [k for k in rest if k != "_children"] == sorted(k for k in rest if k != "_children") else "sort-keys"
                bad(mech, "keys of a nested mapping are not (type tag first,) sorted", path=path, call=call, keys=keys)
        if isinstance(obj, ASTNode):
            if dialect == ASTSerializationDialects.AST_EXPLORER:
                ctx.count("explorer_children_checked")
                exp = [f.name for f in U.child_fields(tn)] if tn in U.specs or tn == f"{P}Holder" else None
                if tn == f"{P}Holder":
                    exp = ["child"]
                if exp is not None and out.get("_children") != exp:
                    bad("explorer-children", "_children does not list the class's child field names", path=path, call=call, got=out.get("_children"), exp=exp)
            elif "_children" in out:
                bad("explorer-children", "_children present without the explorer dialect", path=path, call=call)
        import dataclasses

        for f in dataclasses.fields(obj):
            if f.name == "_raw":
                continue
            v = getattr(obj, f.name)
            if f.name not in out:
                if isinstance(obj, ASTNode) or isinstance(v, DataClassSerializeMixin):
                    bad("shape", f"field {f.name} missing from the mapping", path=path, call=call)
                continue
            o = out[f.name]
            if isinstance(v, DataClassSerializeMixin):
                walk(v, o, opts, f"{path}.{f.name}", call)
            elif isinstance(v, (tuple, list)) and v and isinstance(v[0], DataClassSerializeMixin):
                if not isinstance(o, list) or len(o) != len(v):
                    bad("shape", f"field {f.name}: sequence length differs", path=path, call=call)
                    continue
                for i, (x, y) in enumerate(zip(v, o)):
                    walk(x, y, opts, f"{path}.{f.name}[{i}]", call)

    # ------------------------------------------------------------------ option subsets
    def all_subsets():
        out = []
        for skip, sort, dialect, idx, md in itertools.product([False, True], [False, True], [None, ASTSerializationDialects.AST_EXPLORER, ASTSerializationDialects.AST_TEST], [False, True], [None, OrjsonDialect]):
            o = {}
            if skip:
                o[SerializationOption.SKIP_CLASS] = True
            if sort:
                o[SerializationOption.SORT_KEYS] = True
            if dialect is not None:
                o[AST_SERIALIZE_DIALECT_KEY] = dialect
            if idx:
                o[SOURCE_OPTIMIZED_SERIALIZATION_KEY] = True
            out.append((o, md))
            # the same subset with the switched-off options spelled out as False (an option is its value, not its presence)
            o2 = dict(o)
            for key, on in ((SerializationOption.SKIP_CLASS, skip), (SerializationOption.SORT_KEYS, sort), (SOURCE_OPTIMIZED_SERIALIZATION_KEY, idx)):
                if not on:
                    o2[key] = False
            if o2 != o or len(o2) != len(o):
                out.append((o2, md))
        return out

    subsets = all_subsets()

    def do_ser(root, how, opts, md):
        so = dict(opts) if opts else None
        if how == "as_dict":
            return root.as_dict(mashumaro_dialect=md, serialization_options=so)
        if how == "to_json":
            return json.loads(root.to_json(serialization_options=so))
        if how == "to_json_indent":
            return json.loads(root.to_json(indent=True, serialization_options=so))
        if how == "to_jsonb_indent":
            return json.loads(root.to_jsonb(indent=True, serialization_options=so))
        if how == "to_msgpck":
            import msgpack

            return msgpack.unpackb(root.to_msgpck(serialization_options=so), raw=False)
        if how == "to_yaml":
            import yaml

            return yaml.safe_load(root.to_yaml(mashumaro_dialect=md, serialization_options=so))
        raise ValueError(how)

    def do_deser(C, payload, how, opts, md):
        so = dict(opts) if opts else None
        if how == "as_obj":
            return C.as_obj(copy.deepcopy(payload), mashumaro_dialect=md, serialization_options=so)
        if how == "from_json":
            import orjson

            return C.from_json(orjson.dumps(payload), serialization_options=so)
        if how == "from_msgpck":
            import msgpack

            return C.from_msgpck(msgpack.packb(payload, use_bin_type=True), serialization_options=so)
        if how == "from_yaml":
            import yaml

            return C.from_yaml(yaml.safe_dump(payload), mashumaro_dialect=md, serialization_options=so)
        raise ValueError(how)

    def odesc(opts, md):
        return sorted(str(getattr(k, "value", k)) + "=" + str(getattr(v, "name", v)) for k, v in opts.items()) + (["mashumaro_dialect"] if md else [])

    for case in ctx.cases(ctx.params["trees"]):
        rng = ctx.rng(case)
        tg = G.TreeGen(rng, U, max_nodes=rng.choice([4, 9]), max_depth=4, max_width=3, share=0.0, twin=0.1, p_origin=0.7, hostile=0.05, exclude=(f"{P}Nested", f"{P}Meta", f"{P}Typed"))  # no (faithful) wire form: Any-typed nested tuples / value objects, a lossy field serializer
        s = tg.tree()
        if case % 5 == 3:
            # an origin of a user's own class that is falsy (an empty span)
            s.origin = ("span", case % O.N_SOURCES, 1, 1) if len(O.TEXTS[case % O.N_SOURCES]) > 1 else ("span", 0, 1, 1)
            ctx.count("falsy_origin_object")
        if case % 5 == 2:
            # an origin object made of the two placeholders (not the NoOrigin singleton): an object like any other
            s.origin = ("nsnp",)
            ctx.count("origin_object_made_of_placeholders")
        if case % 3 == 1:
            # the origins carry their own source objects, equal to (but other objects than) the registered ones
            root = build(U, s, origin_fn=lambda sp: O.build_origin(sp.origin, src=O.fresh_source))
            ctx.count("equal_but_distinct_source_objects")
        else:
            root = build(U, s)
        fp = G.shape_fingerprint(U, s)
        C = type(root)
        if case < 1 and ctx.shard == 0:
            ctx.sample({"tree": spec_json(s)})
        chosen = subsets if ctx.params["subsets"] >= len(subsets) else rng.sample(subsets, ctx.params["subsets"])
        # ---------------- a mashumaro dialect that only sets a flag (omit_none): it reaches every nested object
        from mashumaro.dialect import Dialect as _Dialect

        class OmitNone(_Dialect):
            omit_none = True

        def strip_none(x):
            if isinstance(x, dict):
                return {k: strip_none(v) for k, v in x.items() if v is not None}
            if isinstance(x, list):
                return [strip_none(v) for v in x]
            return x

        for opts, _md in rng.sample(subsets, 2):
            so = dict(opts) if opts else None
            ctx.evaluations += 1
            ctx.count("flag_only_dialect")
            try:
                plain = root.as_dict(serialization_options=so)
                with_flag = root.as_dict(mashumaro_dialect=OmitNone, serialization_options=so)
                again = root.as_dict(serialization_options=so)
            except Exception as e:  # noqa: BLE001
                bad("serialize-raised", f"as_dict with a flag-only dialect raised {type(e).__name__}: {e}"[:300], options=odesc(opts, None))
                continue
            if with_flag != strip_none(plain) or (plain != strip_none(plain) and with_flag == plain):
                bad("dialect-not-applied", "a mashumaro dialect that sets omit_none did not take effect on every nested object", options=odesc(opts, None), tree=spec_json(s))
            if again != plain:
                bad("dialect-leaked", "a call without dialect after a call with one gives another output", options=odesc(opts, None))
            after_call({"call": "as_dict", "options": odesc(opts, None) + ["mashumaro_dialect=omit_none"]}, False)
        # ---------------- successful calls with every option subset + shape walk
        if case % 3 == 1:
            # a dump of sources from elsewhere (a part of this process's sources, in another order, and unknown ones) was
            # loaded before: the sources of the live tree stay listed, under the indices they had
            before_idx = dict(Source._sources)
            dump = [d for d in Source.all_as_dict() if "sources" not in d]
            part = list(reversed(dump[: max(1, len(dump) // 2)])) + [dict(dump[0], source_uri=f"foreign://c16/{case}")]
            try:
                Source.load_serialized_sources(part)
            except Exception as e:  # noqa: BLE001
                bad("load-sources-raised", f"load_serialized_sources raised {type(e).__name__}: {e}"[:200])
            ctx.count("source_dump_loaded_before_calls")
            moved = [str(k)[:60] for k, v in before_idx.items() if Source._sources.get(k) != v]
            if moved:
                bad("index-source", "loading a dump of sources changed the index of (or dropped) sources that were already listed", moved=moved[:4])
        for opts, md in chosen:
            ctx.count("option_subsets")
            if any(v is False for v in opts.values()):
                ctx.count("option_spelled_false")
            how = rng.choice(["as_dict", "as_dict", "to_json", "to_json_indent", "to_jsonb_indent", "to_msgpck", "to_yaml"])
            if "indent" in how:
                ctx.count("indented_json_with_options")
            call = {"call": how, "options": odesc(opts, md), "tree": spec_json(s)}
            ctx.evaluations += 1
            ctx.fp((fp, how, tuple(odesc(opts, md)), "ok"))
            try:
                out = do_ser(root, how, opts, md if how in ("as_dict", "to_yaml") else None)
            except Exception as e:  # noqa: BLE001
                import traceback

                bad("serialize-raised", f"{how} raised {type(e).__name__}: {e}"[:300], tb=traceback.format_exc()[-500:], **call)
                after_call(call, True)
                continue
            after_call(call, False)
            walk(root, out, opts, "root", call)
            if how == "as_dict" and opts:
                # one options object handed to two consecutive calls: it is the caller's, and both calls honour it
                shared = dict(opts)
                o1 = root.as_dict(mashumaro_dialect=md, serialization_options=shared)
                kept = shared == opts
                o2 = root.as_dict(mashumaro_dialect=md, serialization_options=shared)
                ctx.evaluations += 1
                ctx.count("shared_options_object")
                if not kept or shared != opts:
                    bad("caller-options-modified", "a serialization call modified the caller's options mapping", **call)
                elif json.dumps(o1, default=str) != json.dumps(o2, default=str) or json.dumps(o1, default=str) != json.dumps(out, default=str):
                    bad("options-not-applied-on-reuse", "the second call with the same options object produced another output", **call)
                after_call(call, False)
            # deserialization with options set (payload from a default / index-source serialization)
            dopts = {k: v for k, v in opts.items() if k == SOURCE_OPTIMIZED_SERIALIZATION_KEY}
            payload = root.as_dict(serialization_options=dict(dopts) or None)
            dhow = rng.choice(["as_obj", "from_json", "from_msgpck", "from_yaml"])
            ctx.evaluations += 1
            ctx.count("deser_with_options")
            dcall = {"call": dhow, "options": odesc(opts, md), "tree": spec_json(s)}
            try:
                back = do_deser(C, payload, dhow, opts, md if dhow in ("as_obj", "from_yaml") else None)
                if back is not root:
                    bad("deser-result", "deserialization with all nodes alive did not return the registered root", **dcall)
            except Exception as e:  # noqa: BLE001
                bad("deserialize-raised", f"{dhow} raised {type(e).__name__}: {e}"[:300], **dcall)
            after_call(dcall, False)
        # ---------------- a deserialization call's (format) dialect reaches objects without a type tag too
        if case % 2 == 0:
            from vlib.regmodel import collect as _collect

            blob = U.cls[f"{P}Blob"](data=rng.choice([b"\xff\x00\xfe", b"caf\xe9", b"", b"abc"]), origin=O.build_origin(("no",)))
            exp_data, exp_id = blob.data, blob.id
            so_ = {SerializationOption.SKIP_CLASS: True}
            for ser, de in (("to_msgpck", "from_msgpck"), ("to_json", "from_json"), ("as_dict", "as_obj")):
                ctx.evaluations += 1
                ctx.count("tagless_payload_recreated")
                try:
                    pl = getattr(blob, ser)(serialization_options=dict(so_))
                    blob.detach()
                    back = getattr(U.cls[f"{P}Blob"], de)(pl, serialization_options=dict(so_))
                    ok_ = back.data == exp_data and type(back.data) is bytes and back.id == exp_id and back is not blob
                    back.detach()
                except Exception as e:  # noqa: BLE001
                    ok_ = f"{type(e).__name__}: {e}"[:160]
                if ok_ is not True:
                    bad("deser-dialect-not-applied", f"{de} of a payload written by {ser} with type tags suppressed does not give the node back (the format's dialect must reach tag-less objects too)", got=ok_, data=repr(exp_data))
                after_call({"call": de, "options": ["skip_class=True"]}, False)
                blob = U.cls[f"{P}Blob"](data=exp_data, origin=O.build_origin(("no",)))
            blob.detach()
            # ... also after a union-typed field whose first alternative does not fit the (tag-less) mapping
            if f"{P}BlobHold" not in U.module.__dict__:
                exec(compile(f"@dataclass(frozen=True)\nclass {P}BlobHold({P}Expr):\n    first: {P}Un | {P}Leaf | None = None\n    blob: {P}Blob | None = None\n", "<c16 blobhold>", "exec", dont_inherit=True), U.module.__dict__)
            BH = U.module.__dict__[f"{P}BlobHold"]
            for ser, de in (("to_msgpck", "from_msgpck"), ("as_dict", "as_obj")):
                hold = BH(first=U.cls[f"{P}Leaf"](v=7, s="second alternative"), blob=U.cls[f"{P}Blob"](data=exp_data))
                ctx.evaluations += 1
                ctx.count("tagless_payload_recreated")
                try:
                    pl = getattr(hold, ser)(serialization_options=dict(so_))
                    hold.detach()
                    back = getattr(BH, de)(pl, serialization_options=dict(so_))
                    ok_ = type(back.first) is U.cls[f"{P}Leaf"] and back.first.s == "second alternative" and back.blob.data == exp_data and type(back.blob.data) is bytes
                    back.detach()
                except Exception as e:  # noqa: BLE001
                    ok_ = f"{type(e).__name__}: {e}"[:200]
                if ok_ is not True:
                    bad("deser-dialect-not-applied", f"{de} of a tag-less payload: after a union-typed field was resolved to its second alternative the rest of the call lost its options / dialect", got=ok_)
                after_call({"call": de, "options": ["skip_class=True"]}, False)
        # ---------------- (a) raising property at each position
        positions = [p for p in preorder(U, s)]
        for p in positions if len(positions) <= 8 else rng.sample(positions, 8):
            # wrap the subtree at p into a Holder with an armed bomb: Holder(child=<subtree>) replaces the subtree
            s2 = None
            from vlib.spec import deep_copy

            s2 = deep_copy(s)
            q = next(x for x in preorder(U, s2) if x.path == p.path)
            if q.parent is None:
                continue
            f = next(f for f in U.child_fields(q.parent.spec.cls) if f.name == q.field)
            if not any(U.is_sub(f"{P}Expr", t) or t == f"{P}Expr" for t in f.types):
                continue
            holder_marker = S("__holder__", {}, {"child": q.spec})
            bomb_kind = rng.choice([True, True, "abort", "interrupt"])  # what the failing property raises
            if bomb_kind is not True:
                ctx.count("faults_outside_the_exception_tree")
            # build manually: construct subtree nodes, then Holder, then ancestors
            memo = {}

            def build2(sp):
                if sp is holder_marker:
                    inner = build2(sp.kids["child"])
                    return Holder(b=Bomb(bomb_kind), child=inner if isinstance(inner, U.cls[f"{P}Expr"]) else None)
                if id(sp) in memo:
                    return memo[id(sp)]
                kw = {}
                for cf in U.child_fields(sp.cls):
                    if cf.name not in sp.kids:
                        continue
                    v = sp.kids[cf.name]
                    if v is None:
                        kw[cf.name] = None
                    elif isinstance(v, tuple):
                        kw[cf.name] = tuple(build2(c) for c in v)
                    else:
                        kw[cf.name] = build2(v)
                for pf in U.prop_fields(sp.cls):
                    if pf.name in sp.props and pf.init:
                        kw[pf.name] = sp.props[pf.name]
                kw["origin"] = O.build_origin(sp.origin)
                n = U.cls[sp.cls](**kw)
                memo[id(sp)] = n
                return n

            if q.index is None:
                q.parent.spec.kids[q.field] = holder_marker
            else:
                t = list(q.parent.spec.kids[q.field])
                t[q.index] = holder_marker
                q.parent.spec.kids[q.field] = tuple(t)
            broot = build2(s2)
            opts, md = rng.choice(subsets)
            how = rng.choice(["as_dict", "to_json", "to_msgpck", "to_yaml"])
            call = {"call": how, "options": odesc(opts, md), "fault": "raising property", "position": list(p.path)}
            ctx.evaluations += 1
            ctx.count("bomb_positions")
            ctx.fp((fp, how, tuple(odesc(opts, md)), "bomb", p.path))
            raised = False
            try:
                do_ser(broot, how, opts, md if how in ("as_dict", "to_yaml") else None)
            except BaseException as e:  # noqa: BLE001 - the injected faults include KeyboardInterrupt and a BaseException subclass
                if isinstance(e, (SystemExit, GeneratorExit)):
                    raise
                raised = True
            if not raised:
                bad("fault-not-raised", "the raising property did not make the call fail (harness)", **call)
            elif opts or md:
                ctx.count("raised_with_options")
            after_call(call, raised)
            broot.detach()
            del broot, memo
        # ---------------- (b) corrupted payloads
        good = root.as_dict()
        idx_payload = root.as_dict(serialization_options={SOURCE_OPTIMIZED_SERIALIZATION_KEY: True})
        root_ids = [n.id for _, n in real_preorder(U, root)]

        def mappings(d, path=()):
            out = []
            if isinstance(d, dict):
                out.append((path, d))
                for k, v in d.items():
                    out.extend(mappings(v, path + (k,)))
            elif isinstance(d, list):
                for i, v in enumerate(d):
                    out.extend(mappings(v, path + (i,)))
            return out

        def corrupt(payload, path, kind):
            d = copy.deepcopy(payload)
            cur = d
            for k in path:
                cur = cur[k]
            if kind == "missing":
                for k in ("id", "start", "index", "source_uri", "xpath", "source", "origins"):
                    if k in cur:
                        del cur[k]
                        return d
                return None
            if kind == "wrongtype":
                for k in ("origin", "position", "start", "source"):
                    if k in cur:
                        cur[k] = 5
                        return d
                return None
            if kind == "unknowntype":
                if TYPE_KEY in cur:
                    cur[TYPE_KEY] = "NoSuchClassAnywhere"
                    return d
                return None
            if kind == "badidx":
                if "idx" in cur:
                    cur["idx"] = rng.choice(["zero", 99999])
                    return d
                return None
            return None

        # deserialization must really run: the nodes must not be registered
        root.detach()
        for payload in (good, idx_payload):
            maps = mappings(payload)
            for path, _m in maps if len(maps) <= 14 else rng.sample(maps, 14):
                for kind in ("missing", "wrongtype", "unknowntype", "badidx"):
                    d = corrupt(payload, path, kind)
                    if d is None:
                        continue
                    opts, md = rng.choice(subsets)
                    if payload is idx_payload:
                        opts = dict(opts)
                        opts[SOURCE_OPTIMIZED_SERIALIZATION_KEY] = True
                    dhow = rng.choice(["as_obj", "from_json", "from_msgpck", "from_yaml"])
                    call = {"call": dhow, "options": odesc(opts, md), "fault": f"payload {kind}", "at": [str(x) for x in path]}
                    ctx.evaluations += 1
                    ctx.count("corrupt_payloads")
                    ctx.fp((fp, dhow, tuple(odesc(opts, md)), kind, tuple(map(str, path))))
                    raised = False
                    try:
                        r = do_deser(C, d, dhow, opts, md if dhow in ("as_obj", "from_yaml") else None)
                        r.detach()
                    except Exception:  # noqa: BLE001
                        raised = True
                    if raised and (opts or md):
                        ctx.count("raised_with_options")
                    after_call(call, raised)
                    for v in [v for k, v in list(NODE_REGISTRY.items()) if k in root_ids]:
                        v.detach()
        # ---------------- (c) failpoints at every statement boundary of the callees
        if case < ctx.params["failpoint_trees"]:
            failpoints(ctx, U, C, root, good, subsets, rng, after_call, do_ser, do_deser, odesc, fp)
        root.detach()
    probe.detach()
    # second workload: the repository's own tests with a slot contract on as_dict / as_obj
    if ctx.shard == 0 and ctx.only_case is None:
        import os
        import subprocess

        here = os.path.dirname(os.path.dirname(os.path.abspath(__file__)))
        src = os.environ.get("PYOAK_SRC", "/repo/src")
        out = os.path.join(os.getcwd(), "c16_contracts.json")
        env = dict(os.environ)
        env["PYTHONPATH"] = os.pathsep.join([src, here, os.path.join(here, ".deps")])
        env["VERIF_CONTRACT_OUT"] = out
        p = subprocess.run([sys.executable, "-m", "pytest", "-q", "-p", "no:cacheprovider", "-p", "plugins.frame_contracts", "-W", "ignore", "tests"], cwd=os.path.dirname(os.path.abspath(src)), env=env, capture_output=True, text=True, timeout=900)
        try:
            res = json.load(open(out))
        except Exception:  # noqa: BLE001
            raise RuntimeError("contract run produced no result: " + (p.stdout + p.stderr)[-1200:])
        ctx.count("repo_tests_slot_checks", res.get("slot_checks", 0))
        ctx.evaluations += res.get("slot_checks", 0)
        ctx.extra["repo_tests"] = {"summary": (p.stdout.strip().splitlines() or ["?"])[-1], "slot_checks": res.get("slot_checks", 0)}
        for v in res["violations"]:
            if v.get("kind") == "slots":
                ctx.violation("slots-dirty-in-repo-tests", v["what"], v)


def callee_codes(U, extra_classes):
    """code objects of the protected region's callees"""
    from pyoak.node import ASTNode
    from pyoak.origin import Origin, Position, Source
    from pyoak.serialize import DataClassSerializeMixin

    codes = {}

    def add(fn, label):
        fn = getattr(fn, "__func__", fn)
        c = getattr(fn, "__code__", None)
        if c is not None:
            codes[c] = label

    def subclasses(c):
        out = [c]
        for s in c.__subclasses__():
            out.extend(subclasses(s))
        return out

    for cls in subclasses(DataClassSerializeMixin):
        for name, val in list(vars(cls).items()):
            if name in ("_serialize", "_deserialize", "__post_serialize__", "__post_init__"):
                add(val, f"{cls.__name__}.{name}")
            else:
                fn = getattr(val, "__func__", val)
                c = getattr(fn, "__code__", None)
                if c is not None and c.co_filename == "<string>" and ("to_dict" in name or "from_dict" in name):
                    codes[c] = f"{cls.__name__}.{name}"
                if isinstance(val, dict):
                    for k, v in val.items():
                        c = getattr(getattr(v, "__func__", v), "__code__", None)
                        if c is not None and c.co_filename == "<string>":
                            codes[c] = f"{cls.__name__}.{name}[{getattr(k, '__name__', k)}]"
    return codes


def failpoints(ctx, U, C, root, good_payload, subsets, rng, after_call, do_ser, do_deser, odesc, fp):
    from pyoak.node import NODE_REGISTRY

    mon = sys.monitoring
    TOOL = 4
    try:
        mon.use_tool_id(TOOL, "verif-c16")
    except ValueError:
        pass
    state = {"n": 0, "k": -1, "fired": None}
    codes = {}

    def cb(code, line):
        state["n"] += 1
        if state["n"] == state["k"]:
            state["fired"] = (codes.get(code, code.co_name), line)
            raise InjectedFault(f"failpoint {state['k']}")

    mon.register_callback(TOOL, mon.events.LINE, cb)

    def arm(on):
        for c in codes:
            mon.set_local_events(TOOL, c, mon.events.LINE if on else 0)

    ids = None
    try:
        for direction in ("ser", "deser"):
            for opts, md in rng.sample(subsets, 3) + [({}, None)]:
                how = rng.choice(["as_dict", "to_json"]) if direction == "ser" else rng.choice(["as_obj", "from_json"])

                def call_once():
                    if direction == "ser":
                        return do_ser(root, how, opts, md if how == "as_dict" else None)
                    r = do_deser(C, good_payload, how, opts, md if how == "as_obj" else None)
                    r.detach()
                    return r

                if direction == "ser":
                    # registered or not does not matter for serialization
                    pass
                # dry run: compile everything, then collect the callee code objects
                call_once()
                codes.clear()
                codes.update(callee_codes(U, []))
                state.update(n=0, k=-1, fired=None)
                arm(True)
                try:
                    call_once()
                finally:
                    arm(False)
                total = state["n"]
                ks = range(1, total + 1) if (ctx.tier == "thorough" or total <= 150) else sorted(rng.sample(range(1, total + 1), 150))
                for k in ks:
                    state.update(n=0, k=k, fired=None)
                    raised = False
                    arm(True)
                    try:
                        call_once()
                    except BaseException:  # noqa: BLE001 - the injected fault may arrive wrapped
                        raised = True
                    finally:
                        arm(False)
                    ctx.evaluations += 1
                    desc = {"call": how, "options": odesc(opts, md), "fault": f"failpoint {k}/{total}", "at": state["fired"]}
                    if state["fired"] is not None:
                        ctx.count("failpoints_fired")
                        label = str(state["fired"][0])
                        if not label.startswith(type(root).__name__ + "."):
                            ctx.count("failpoint_nested")
                        ctx.fp((fp, how, tuple(odesc(opts, md)), "fp", label, state["fired"][1]))
                        if opts or md:
                            ctx.count("raised_with_options")
                    after_call(desc, raised)
                ctx.extra.setdefault("failpoint_line_events", []).append({"call": how, "line_events": total, "code_objects": len(codes)})
    finally:
        arm(False)
        mon.register_callback(TOOL, mon.events.LINE, None)
        try:
            mon.free_tool_id(TOOL)
        except Exception:  # noqa: BLE001
            pass
