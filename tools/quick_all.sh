#!/bin/bash
# run every quick check on the unchanged tree (no evidence written); prints the exit code of each
cd "$(dirname "$0")/.."
for i in 01 02 03 04 05 06 07 08 09 10 11 12 13 14 15 16 17 18 19 20; do
  [ -n "$1" ] && [[ ! " $* " =~ " C$i " ]] && continue
  out=$(VERIF_NO_EVIDENCE=1 /venv/bin/python run_check.py C$i --tier ${VERIF_TIER:-quick} 2>&1); rc=$?
  echo "C$i rc=$rc $(echo "$out" | grep -E '^VIOLATION|INCONCLUSIVE|Traceback' | head -3)"
done
