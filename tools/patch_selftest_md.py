#!/usr/bin/env python3
"""Development helper: merge the rows of a partial self-test run (tools/selftest.py --props ...) into SELFTEST.md.

usage: tools/patch_selftest_md.py <output of the partial run> <why the partial run was made>
The rows of the named properties are replaced by the outcome of the partial run; the totals are recomputed."""
import os
import re
import sys

HERE = os.path.dirname(os.path.dirname(os.path.abspath(__file__)))
out, why = sys.argv[1], sys.argv[2]
new = {}
for line in open(out):
    m = re.match(r"^(\S+)\s+tests=(.{22}) (.*)$", line.rstrip("\n"))
    if not m:
        continue
    name, tests, rest = m.group(1), m.group(2).strip(), m.group(3)
    for p, rc in re.findall(r"(C\d\d):rc=(\d)", rest):
        new[(name, p)] = (tests, int(rc))
md = open(os.path.join(HERE, "SELFTEST.md")).read().split("\n")
ROW = re.compile(r"^\| (\S+) \| ([^|]*) \| ((?:C\d\d: \d(?:, )?)+) \| (.*) \|$")  # (mechanism names may contain '|')
res = []
changed = 0
for ln in md:
    m = ROW.match(ln)
    if m:
        name, tests, props, mech = m.groups()
        parts = []
        for item in props.split(", "):
            p, rc = [x.strip() for x in item.split(":")]
            if (name, p) in new and new[(name, p)][1] != int(rc):
                rc = str(new[(name, p)][1])
                mech = (mech + " " if mech else "") + f"(re-run: {why})"
                changed += 1
            parts.append(f"{p}: {rc}")
        ln = f"| {name} | {tests} | {', '.join(parts)} | {mech} |"
    res.append(ln)
text = "\n".join(res)
oos = set(re.findall(r"^(seeded/\S+): out of scope", text, re.M))
caught = total = 0
for ln in res:
    m = ROW.match(ln)
    if m and m.group(1) not in oos:
        for item in m.group(3).split(", "):
            total += 1
            caught += item.strip().endswith(": 1")
text = re.sub(r"^caught \d+/\d+$", f"caught {caught}/{total}", text, flags=re.M)
open(os.path.join(HERE, "SELFTEST.md"), "w").write(text)
print(f"rows changed: {changed}; caught {caught}/{total}")
