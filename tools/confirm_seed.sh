#!/bin/bash
# usage: tools/confirm_seed.sh <dir with patch.diff demo.py meta.json> <name>
# Confirms: patch applies to /repo HEAD copy, 244 tests pass with it, demo fails with it and passes without.
set -u
SRC=$(readlink -f "$1"); NAME=$2
D=$(mktemp -d /tmp/pyoak_seed_XXXXXX)
rsync -a --exclude .git --exclude testtemp /repo/ "$D/"
cd "$D"
PYTHONPATH="$D/src" timeout 300 /venv/bin/python "$SRC/demo.py" > demo_clean.txt 2>&1; rc_clean=$?
patch -s -p1 < "$SRC/patch.diff" || { echo "$NAME PATCH-FAILED"; rm -rf "$D"; exit 9; }
tests=$(PYTHONPATH="$D/src" /venv/bin/python -m pytest -q -p no:cacheprovider 2>&1 | tail -1)
PYTHONPATH="$D/src" timeout 300 /venv/bin/python "$SRC/demo.py" > demo_mut.txt 2>&1; rc_mut=$?
echo "$NAME demo_clean_rc=$rc_clean demo_mut_rc=$rc_mut tests: $tests"
ok=0
if [ $rc_clean -eq 0 ] && [ $rc_mut -ne 0 ] && echo "$tests" | grep -q "^244 passed"; then ok=1; fi
if [ $ok -eq 1 ]; then
  mkdir -p /verif/seeded/$NAME
  cp "$SRC/patch.diff" "$SRC/demo.py" /verif/seeded/$NAME/
  /venv/bin/python - "$SRC/meta.json" "/verif/seeded/$NAME/meta.json" "$tests" "$rc_clean" "$rc_mut" <<'PY'
import json,sys
m=json.load(open(sys.argv[1]))
m["confirmed_by_main_session"]={"tests_with_patch":sys.argv[3],"demo_rc_unchanged":int(sys.argv[4]),"demo_rc_with_patch":int(sys.argv[5]),
  "how":"tools/confirm_seed.sh: scratch copy of /repo HEAD, patch -p1, full pytest run, demo.py with and without the patch"}
json.dump(m,open(sys.argv[2],"w"),indent=1)
PY
  echo "$NAME CONFIRMED"
else
  echo "$NAME REJECTED"; tail -5 demo_clean.txt
fi
cd /; rm -rf "$D"
