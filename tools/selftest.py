#!/venv/bin/python
"""Self-test (DESIGN.md §3): for every breaking edit (mutants/specs.py and seeded/*/patch.diff)
apply it to a scratch copy of /repo, make sure the repository's tests still pass, run the
expected property's quick check against the copy (PYOAK_SRC) and expect exit 1.

  tools/selftest.py [--only NAME_SUBSTR] [--props C01,C05] [--skip-tests] [--tier quick]
Writes SELFTEST.md (summary table). Development tool, not a manifest command."""
import argparse
import glob
import json
import os
import shutil
import subprocess
import sys
import tempfile
from concurrent.futures import ThreadPoolExecutor

HERE = os.path.dirname(os.path.dirname(os.path.abspath(__file__)))
sys.path.insert(0, HERE)
SEEDS: list = []
OUT_OF_SCOPE: dict = {}  # seeded changes judged not to break the property as stated: run, reported, not expected to be caught


def scratch_copy():
    d = tempfile.mkdtemp(prefix="pyoak_mut_", dir="/tmp")
    subprocess.run(["rsync", "-a", "--exclude", ".git", "--exclude", "testtemp", "/repo/", d + "/"], check=True)
    return d


def run_tests(d):
    p = subprocess.run(
        ["/venv/bin/python", "-m", "pytest", "-q", "-p", "no:cacheprovider", "-x"],
        cwd=d, env=dict(os.environ, PYTHONPATH=d + "/src"), capture_output=True, text=True, timeout=600,
    )
    last = (p.stdout.strip().splitlines() or ["?"])[-1]
    return last


def run_check(d, prop, tier, seed=None):
    rd = tempfile.mkdtemp(prefix="verif_replays_", dir="/tmp")
    env = dict(os.environ, PYOAK_SRC=d + "/src", VERIF_NO_EVIDENCE="1", VERIF_REPLAY_DIR=rd, VERIF_JOBS=os.environ.get("SELFTEST_JOBS", "8"))
    if seed is not None:
        env["VERIF_SEED"] = str(seed)
    p = subprocess.run(["/venv/bin/python", os.path.join(HERE, "run_check.py"), prop, "--tier", tier], cwd=HERE, env=env, capture_output=True, text=True, timeout=3600)
    mechs = sorted({l.split("mechanism=")[1].split(" ")[0] for l in p.stdout.splitlines() if "mechanism=" in l})
    shutil.rmtree(rd, ignore_errors=True)
    return p.returncode, mechs, p.stdout[-600:] if p.returncode not in (0, 1) else ""


def one(job):
    kind, name, props, apply_fn, tier, skip_tests = job
    d = scratch_copy()
    try:
        err = apply_fn(d)
        if err:
            return (name, props, "APPLY-FAILED: " + err, {}, "")
        tests = "skipped" if skip_tests else run_tests(d)
        res = {}
        for prop in props:
            if not os.path.exists(os.path.join(HERE, "checks", prop.lower() + ".py")):
                res[prop] = ("no-check", [], "")
                continue
            if SEEDS:
                # robustness: the edit must be caught under every seed; report the worst exit code
                rs = [run_check(d, prop, tier, sd) for sd in SEEDS]
                worst = next((r for r in rs if r[0] != 1), rs[0])
                res[prop] = (worst[0], sorted({m for r in rs for m in r[1]}), f"caught under {sum(1 for r in rs if r[0] == 1)}/{len(rs)} seeds {SEEDS}")
            else:
                res[prop] = run_check(d, prop, tier)
        return (name, props, "ok", res, tests)
    finally:
        shutil.rmtree(d, ignore_errors=True)


def main():
    ap = argparse.ArgumentParser()
    ap.add_argument("--only", default="")
    ap.add_argument("--props", default="")
    ap.add_argument("--skip-tests", action="store_true")
    ap.add_argument("--tier", default="quick")
    ap.add_argument("--jobs", type=int, default=2)
    ap.add_argument("--seeds", default="", help="comma separated VERIF_SEEDs: every edit must be caught under each of them")
    args = ap.parse_args()
    global SEEDS
    SEEDS = [int(x) for x in args.seeds.split(",") if x]
    from mutants.specs import M

    jobs = []
    want = set(args.props.split(",")) if args.props else None
    for m in M:
        def ap_fn(d, m=m):
            p = os.path.join(d, m["file"])
            s = open(p).read()
            if s.count(m["old"]) != 1:
                return f"old text occurs {s.count(m['old'])}x in {m['file']}"
            open(p, "w").write(s.replace(m["old"], m["new"]))
            return None
        props = [p for p in m["props"] if not want or p in want]
        if props and args.only in m["name"]:
            jobs.append(("mutant", "mutants/" + m["name"], props, ap_fn, args.tier, args.skip_tests))
    for sd in sorted(glob.glob(os.path.join(HERE, "seeded", "*"))):
        name = os.path.basename(sd)
        meta = json.load(open(os.path.join(sd, "meta.json")))
        props = list(dict.fromkeys([meta.get("property", name[:3])] + meta.get("also_caught_by", [])))
        props = [p for p in props if not want or p in want]
        if meta.get("out_of_scope"):
            OUT_OF_SCOPE[("seeded/" + name)] = meta["out_of_scope"]
        def ap_fn(d, sd=sd):
            p = subprocess.run(["patch", "-s", "-p1", "-i", os.path.join(sd, "patch.diff")], cwd=d, capture_output=True, text=True)
            return None if p.returncode == 0 else (p.stdout + p.stderr)[-300:]
        if props and args.only in name:
            jobs.append(("seeded", "seeded/" + name, props, ap_fn, args.tier, args.skip_tests))
    rows = []
    with ThreadPoolExecutor(max_workers=args.jobs) as ex:
        for r in ex.map(one, jobs):
            rows.append(r)
            name, props, st, res, tests = r
            oos = name in OUT_OF_SCOPE
            line = f"{name:45s} tests={tests[:22]:22s} " + " ".join(f"{p}:rc={v[0]}{'' if v[0]==1 else (' (out of scope: not expected)' if oos else ' <<< MISSED')}" for p, v in res.items()) + (" " + st if st != "ok" else "")
            print(line, flush=True)
    caught = sum(1 for r in rows for p, v in r[3].items() if v[0] == 1 and r[0] not in OUT_OF_SCOPE)
    total = sum(len(r[3]) for r in rows if r[0] not in OUT_OF_SCOPE)
    print(f"caught {caught}/{total}")
    if not args.only and not args.props and not SEEDS:
        with open(os.path.join(HERE, "SELFTEST.md"), "w") as f:
            f.write("# Self-test: breaking edits vs quick checks\n\n| edit | repo tests with edit | property: exit code (1 = caught) | mechanisms reported |\n|---|---|---|---|\n")
            for name, props, st, res, tests in rows:
                f.write(f"| {name} | {tests} | " + ", ".join(f"{p}: {v[0]}" for p, v in res.items()) + " | " + "; ".join(",".join(v[1][:4]) for v in res.values()) + " |\n")
            f.write(f"\ncaught {caught}/{total}\n")
            for k, why in OUT_OF_SCOPE.items():
                f.write(f"\n{k}: out of scope, not counted - {why}\n")


if __name__ == "__main__":
    main()
