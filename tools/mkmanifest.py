#!/venv/bin/python
"""Regenerates MANIFEST.json from the table below + which checks/cNN.py exist."""
import json, os, sys
HERE = os.path.dirname(os.path.dirname(os.path.abspath(__file__)))
sys.path.insert(0, HERE)
from tools.manifest_table import TABLE, NOT_APPLICABLE  # noqa: E402

props = [json.loads(l) for l in open(os.path.join(HERE, "properties.jsonl"))]
checks, na = [], []
for p in props:
    pid = p["id"]
    if pid in TABLE and os.path.exists(os.path.join(HERE, "checks", pid.lower() + ".py")):
        t = TABLE[pid]
        checks.append({
            "property_id": pid,
            "quick_cmd": f"/venv/bin/python run_check.py {pid} --tier quick",
            "thorough_cmd": f"/venv/bin/python run_check.py {pid} --tier thorough",
            "evidence_file": f"/verif/evidence/{pid}.json",
            "replay_cmd_template": f"/venv/bin/python run_check.py {pid} --replay {{path}}",
            "engine": "runtime-monitors",
            "level_claimed": {"category": t["level"], "text": t["text"], "design_ref": t["design_ref"]},
            "level_note": t["note"],
            "technique": t["technique"],
        })
    else:
        na.append({"property_id": pid, "reason": NOT_APPLICABLE.get(pid, "monitor not built yet in this round (planned, see DESIGN.md §1)")})
m = {
    "version": 1,
    "setup_cmd": "/venv/bin/pip install -q --no-index --find-links /opt/veriftools/wheels --target /verif/.deps icontract || true",
    "hooks": {
        "guard": "PYOAK_VERIF",
        "enable": "no build step: checks import /repo/src directly (PYTHONPATH); all monitors are applied from outside (wrappers, sys.monitoring, icontract), PYOAK_VERIF=1 is exported by the driver but no guarded code exists in /repo",
        "baseline_off_cmd": "cd /repo && /venv/bin/python -m pytest -ra -q -p no:cacheprovider --timeout=900",
        "source_commits": [],
        "add_only": True,
    },
    "engines": [{
        "name": "runtime-monitors",
        "path": "/verif/run_check.py",
        "serves_properties": [c["property_id"] for c in checks],
        "kind_free_text": "runtime monitoring: the real pyoak code is executed under generated / hostile / fault-injecting workloads in fresh subprocess shards; reference-model oracles, invariant checks at quiescent points and before/after frames decide each execution",
    }],
    "checks": checks,
    "not_applicable": na,
    "notes": "Every verdict is 'held on the executions observed'. exit 3 + INCONCLUSIVE (no VIOLATION line) when a shard died, a watchdog fired or a must-see counter stayed at zero. known_findings.json lists recorded genuine defects (KNOWN-FINDING lines) and the fixed ones. Shards rotate through library configurations (defaults; trace logging; run-time type checks where the generator is well-typed; postponed annotations; a foreign-history prelude that uses the other subsystems first; early class-level introspection) - each evidence file names them under coverage.observations.library_configuration (DESIGN.md 6.9, 6.18).",
}
json.dump(m, open(os.path.join(HERE, "MANIFEST.json"), "w"), indent=1)
print("checks:", [c["property_id"] for c in checks], "na:", [n["property_id"] for n in na])
