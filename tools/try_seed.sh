#!/bin/bash
# usage: tools/try_seed.sh <patch.diff> <ID> [tier] [--tests]
# Applies a patch to a scratch copy of /repo (outside /repo and /verif), runs the
# check for <ID> against it (PYOAK_SRC), prints the exit code, removes the copy.
set -u
PATCH=$(readlink -f "$1"); ID=$2; TIER=${3:-quick}; TESTS=${4:-}
D=$(mktemp -d /tmp/pyoak_mut_XXXXXX)
rsync -a --exclude .git --exclude testtemp /repo/ "$D/"
( cd "$D" && patch -s -p1 < "$PATCH" ) || { echo "PATCH FAILED"; rm -rf "$D"; exit 9; }
if [ "$TESTS" = "--tests" ]; then
  ( cd "$D" && PYTHONPATH="$D/src" /venv/bin/python -m pytest -q -p no:cacheprovider -x 2>&1 | tail -1 )
fi
cd /verif
VERIF_NO_EVIDENCE=1 PYOAK_SRC="$D/src" /venv/bin/python run_check.py "$ID" --tier "$TIER" > "$D/out.txt" 2>&1
rc=$?
grep -E "^(VIOLATION|INCONCLUSIVE|KNOWN-FINDING)|mechanism=" "$D/out.txt" | head -8
echo "rc=$rc  ($ID vs $(basename $(dirname $PATCH)))"
rm -rf "$D"
exit $rc
