NOT_APPLICABLE = {}
_note = "trusts CPython, the stdlib, mashumaro/orjson/msgpack/yaml/lark as black boxes, and the small reference model inside the check (itself exercised by the seeded-defect self-test); says nothing about inputs the generators do not produce"
TABLE = {
 "C05": dict(level="exploration", design_ref="DESIGN.md §1 C05",
   technique="runtime monitoring: reference-walker oracle over generated trees, predicate call-log monitor, exhaustive prune/filter subsets on small trees",
   text="Every dfs/bfs/gather/children execution on generated trees (all child-field shapes, shared objects, falsy children, multiple inheritance, deep chains, wide tuples) is compared position-by-position (object identity) with a 20-line reference walker computed from the tree spec; the predicates' call logs are monitored for 'pruned nodes are offered to the filter, their descendants never are'. Exhaustive over all (prune, filter) subsets for small trees, sampled otherwise.",
   note=_note),
}
