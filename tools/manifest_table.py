NOT_APPLICABLE: dict = {}
_note = (
    "trusts CPython, the stdlib, mashumaro/orjson/msgpack/yaml/lark as black boxes, and the small reference model inside the "
    "check (itself exercised by the seeded-defect self-test, see DESIGN.md §3 and seeded/); says nothing about inputs the "
    "generators do not produce; verdict = held on the executions observed"
)


def _e(level, ref, technique, text):
    return dict(level=level, design_ref=ref, technique=technique, text=text, note=_note)


TABLE = {
    "C01": _e(
        "exploration",
        "DESIGN.md §1 C01",
        "runtime monitoring: spec-derived canonical content key vs observed content_id (hash join over all pairs of a pool), cross-process join under different hash seeds and field orders",
        "Every node built from mutation-grown pools (single edits of value, type, order, class, origin, separator re-splits) is recorded as (canonical key from the spec, class, content_id); two hash joins decide key-equality <=> content_id-equality for every pair of the pool and of all shards together (different PYTHONHASHSEED, reversed field declaration order); is_equal is sampled both ways; content_id is re-read after all other operations (lifetime constancy).",
    ),
    "C02": _e(
        "exploration",
        "DESIGN.md §1 C02",
        "runtime monitoring: reference equality (content key + per-position origin canon from the spec) vs observed ==, !=, hash on generated pairs and triples",
        "For pools grown from seed trees by changing exactly one origin at one position (any depth, inside tuples and single fields, all origin kinds) and by content edits, a == b is compared with the spec-level reference for all pairs of a pool, with symmetry, != as negation, transitivity on triples, non-node / other-class comparisons and hash constancy.",
    ),
    "C03": _e(
        "exploration",
        "DESIGN.md §1 C03",
        "runtime monitoring: shadow-model of the registry updated by the documented effect of each operation; NODE_REGISTRY compared object-identically after every operation of generated histories; weakref liveness after gc; digest sizes 8, 2, 1",
        "Random histories over a harness-owned handle table (construct twins, duplicate, dataclasses.replace, ASTNode.replace ok/failing, detach, detach_self on live and stale nodes, as_dict/as_obj, drop + gc) with ID_DIGEST_SIZE in {8,2,1}; after each step the whole registry must equal the model, get/get_any/strict agree, dropped nodes must die, failing replace must leave the registry unchanged, ids of fresh constructions are deterministic across shards and hash seeds.",
    ),
    "C04": _e(
        "exploration",
        "DESIGN.md §1 C04",
        "runtime monitoring: dump-equality oracle (class, id, content_id, typed property values, origin canon, sharing partition) over dict/JSON/MessagePack/YAML round trips under every alive-subset, incl. fresh interpreter processes",
        "Trees with hostile value generators (YAML-hostile strings, 64-bit boundaries, floats, enums, paths), all origin kinds, shared subtrees and forced collision-suffix ids are round-tripped through the four formats while all / some / none of the originals are alive (none also in a fresh process with another hash seed); identity of still-registered nodes, exact dumps of re-created ones, sharing and singletons are checked.",
    ),
    "C05": _e(
        "exploration",
        "DESIGN.md §1 C05",
        "runtime monitoring: reference-walker oracle over generated trees, predicate call-log monitor, exhaustive prune/filter subsets on small trees",
        "Every dfs/bfs/gather/children execution on generated trees (all child-field shapes, shared objects, falsy children, multiple inheritance, deep chains, wide tuples) is compared position-by-position (object identity) with a 20-line reference walker computed from the tree spec; the predicates' call logs are monitored for 'pruned nodes are offered to the filter, their descendants never are'. Exhaustive over all (prune, filter) subsets for small trees, sampled otherwise.",
    ),
    "C06": _e(
        "exploration",
        "DESIGN.md §1 C06",
        "runtime monitoring: spec-derived parent map oracle; every unary Tree query for every node, binary queries for all ordered pairs, xpath follower, foreign-twin KeyError probes",
        "For generated trees without repeated objects (== twins at different positions, chains, tuples with index >= 10) every Tree query is compared with the parent map computed from the spec, for all nodes and all ordered pairs; get_xpath is followed from the root by a 12-line interpreter and must be unique; registered foreign twins must raise KeyError / ValueError.",
    ),
    "C07": _e(
        "exploration",
        "DESIGN.md §1 C07",
        "runtime monitoring: three-way agreement of findall, match (every node) and a top-down reference evaluator of the documented semantics on generated (xpath AST, tree) pairs",
        "XPaths are generated as ASTs (1-4 steps, anywhere/field/index/class combinations, indices up to 14, relative spelling, '[]', '///'), rendered and evaluated by a reference evaluator on spec positions; multiset(findall), {n | match(root,n)}, find and the node front-ends must agree with it on every tree.",
    ),
    "C08": _e(
        "exploration",
        "DESIGN.md §1 C08",
        "runtime monitoring: reference matcher interpreting the pattern AST over real nodes vs NodeMatcher / MultiPatternMatcher results (captures compared by identity); repeated-question history monitor for cache independence",
        "Patterns are generated as ASTs (class alternatives, '*', field specs of every kind, nested patterns, sequences with/without tail one shorter/equal/longer than the data, captures everywhere admissible, variables) and rendered; a 60-line reference matcher decides each (pattern, node) question; repeated questions (hot cache, cold cache, after unrelated compiles) must give the first answer; MultiPatternMatcher is checked for rule order under permutations and subsets.",
    ),
    "C09": _e(
        "exploration",
        "DESIGN.md §1 C09",
        "runtime monitoring: dispatch-log monitor vs MRO reference; reference bottom-up rewriter on the spec vs transform result (dump + object identity of unchanged subtrees); FRAME snapshot of the input incl. raising visitors",
        "Recording visitors (strict/non-strict, methods on arbitrary subsets of the hierarchy incl. multiple inheritance) log every dispatch, compared with the reference method resolution; rule sets (keep/rewrite/replace/remove/raise per class) are applied by a reference rewriter to the spec and compared with ASTTransformVisitor.transform: result dump, identity of every unchanged subtree, newness of every ancestor of a change, removals at each tuple position, exception propagation and an unchanged input tree.",
    ),
    "C10": _e(
        "exploration",
        "DESIGN.md §1 C10, §6.7",
        "runtime monitoring: FRAME (snapshot of every field value, id, content_id, hash of every pre-existing node) around every public operation of generated histories incl. raising ones; sys.monitoring CALL watcher on object.__setattr__/__delattr__ as supporting observation; icontract frame contracts over the repository's own tests",
        "Histories over all public operations (traversal, Tree, xpath, pattern, visit/transform incl. raising / unwrapping / rebuilding rules, duplicate, replace ok/failing, detach, all serialization formats with originals alive / detached / dropped, ==, hash, rich) with a before/after snapshot of every field of every reachable pre-existing node (scalars by type+value, nodes by identity); direct setattr/delattr on every field of every class must raise; the writer locations the sys.monitoring watcher sees on pre-existing nodes are reported in the evidence (a write that changes nothing is not a violation); the repo's own 244 tests run under icontract frame contracts.",
    ),
    "C11": _e(
        "exploration",
        "DESIGN.md §1 C11",
        "runtime monitoring: reference classifier over generated annotation ASTs vs observed definition-time / first-use outcome and child/property field lists, across renderings (plain/postponed, inherited, overridden, forward references), fresh process per shard",
        "Annotations are generated as ASTs over the statement's grammar (depth <= 2 enumerated completely, depth 3 sampled), rendered into single classes, inheritance chains and overrides, with and without postponed annotations and with forward references; the observed outcome (InvalidFieldAnnotations at definition or first use; membership in child / property lists) is compared with a 40-line reference classifier; a rejected annotation that instantiates successfully is the violation 'node hidden in a property'.",
    ),
    "C12": _e(
        "exploration",
        "DESIGN.md §1 C12",
        "runtime monitoring: spec-derived accessor oracle over generated class hierarchies x order-of-first-use configurations x all 64 flag combinations",
        "For generated hierarchies (1-3 levels, overrides, init=False, compare=False, kw_only, slots, multiple inheritance) every accessor (get_properties with all 2^5 flags x sort_keys, get_property_fields, get_child_nodes(_with_field), iter_child_fields, children, get_child_fields, to_properties_dict) is compared with the order/skip rules computed from the class spec, values by identity and fields by being the class's own Field object, for every order of first use among the classes.",
    ),
    "C13": _e(
        "exploration",
        "DESIGN.md §1 C13",
        "runtime monitoring: reference conformance predicate over (annotation AST, value) pairs vs observed construction outcome with RUNTIME_TYPE_CHECK on and off",
        "All (annotation, value) pairs for accepted annotations of depth <= 2 and a value pool containing both booleans, 0/1, floats, strings, None, enums, nodes, tuples and lists are constructed with checks on (success iff conforming, else InvalidTypes naming exactly the bad fields) and off (always success, same node); multi-field constructions mix conforming and non-conforming fields; repeated constructions in different orders detect history dependence.",
    ),
    "C14": _e(
        "exploration",
        "DESIGN.md §1 C14",
        "runtime monitoring: dump/identity oracle for duplicate and replace (object-set disjointness, registry lookups, control construction for ids) on generated trees and registry states",
        "duplicate() results are compared with the original position by position (==, dumps, no shared object at any depth, every copy registered, no id shared with a registered original); ASTNode.replace / dataclasses.replace results are checked for class, changed fields holding the given objects, all other init fields identical, registry effect and the id a control construction obtains, on registered and detached originals with and without twins.",
    ),
    "C15": _e(
        "exploration",
        "DESIGN.md §1 C15",
        "runtime monitoring: exhaustive grid enumeration of the interval laws (pairs, triples, ill-formed inputs) + reference fold for '+', merge_origins, concat_origins over all origin kinds",
        "All 28 ranges on a 7-index grid: all 784 pairs and 21952 triples for containment / overlap / order / hull laws, all ill-formed points and ranges; all ordered pairs over a 43-element pool of single origins exhaustively and random tuples of up to four origins (incl. multi operands) against a reference of '+', merge_origins and concat_origins; flatness, member identity/order, source / source-set, fqn composition and exact get_raw slices.",
    ),
    "C16": _e(
        "fault_enumeration",
        "DESIGN.md §1 C16",
        "runtime monitoring with fault injection: option-slot invariant + default-output probe after every call of generated call histories; sys.monitoring LINE failpoints enumerated over every statement of the nested (de)serializers; recursive shape walker of every nested mapping",
        "Histories of as_dict/as_obj/to_*/from_* calls with every option subset; after each call (returned or raised) the two process-global slots must be empty and an option-less probe serialization must equal the baseline; faults are enumerated: a raising property at each tree position, payload corruption at each nested mapping, and an injected exception at the k-th statement executed inside the callees for every k; outputs are walked mapping by mapping for the tag / sort / skip / explorer / index-source rules; one options object is re-used across calls; the repository's own tests run under a slot contract on as_dict/as_obj.",
    ),
    "C17": _e(
        "exploration",
        "DESIGN.md §1 C17",
        "runtime monitoring: totality fuzz of the four compile entry points (outcome classification), grammar-derived acceptance, token-level mutations, whitespace metamorphic variants, recompile (cached / uncached / class defined later) behaviour vectors",
        "Grammar-derived xpaths and patterns, single-token mutations, class-name faults, duplicate captures, variables before captures, invalid regexes and random strings are compiled through ASTXpath, validate_pattern, NodeMatcher.from_pattern and MultiPatternMatcher; only the definition errors may escape, the three pattern entry points must agree, well-formed texts must be accepted and behave like the C07/C08 references, inter-token whitespace and recompilation must not change the behaviour vector on a fixed panel.",
    ),
    "C18": _e(
        "exploration",
        "DESIGN.md §1 C18",
        "runtime monitoring: structural invariant checker (I1-I5) over the live legacy forest after every successful operation of generated histories, with harness-side admissibility pre-check and faulthandler watchdog",
        "Random histories of legacy operations (construct over children, attach, detach, detach_self, replace, replace_with node/None, duplicate, transform visitors, transformers) over attached, detached and stale receivers; after every successful operation parent links, stored positions, registry lookups, content_id vs an independently rebuilt tree and ancestors/depth/is_ancestor/xpath are checked for every handle.",
    ),
    "C19": _e(
        "fault_enumeration",
        "DESIGN.md §1 C19",
        "runtime monitoring with fault enumeration: FRAME snapshot of the whole legacy forest around every rejected operation, the failing element placed at every position",
        "Every documented rejection (duplicate children, parent collision, id/registry collision, forbidden replace keys, replace_with violations, attach failure, raising transforms) is provoked with the failing element first/middle/last, direct/nested, attached/detached; attached flag, parent/field/index, field identities, id, original_id, content_id of all pre-existing nodes and the registry map must be unchanged.",
    ),
    "C20": _e(
        "exploration",
        "DESIGN.md §1 C20",
        "runtime monitoring: the C05 reference walker (with skip_self) and the C07 reference evaluator applied to attached legacy trees; calculate_xpath vs spec-derived paths",
        "Legacy dfs/bfs/gather streams (skip_self x prune x filter x bottom_up, exhaustive subsets on small trees) and legacy ASTXpath.match for every node are compared with the references; malformed xpaths must raise the legacy definition error only; calculate_xpath must assign the spec-derived path to every node of an attached root.",
    ),
}
